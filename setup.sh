#!/bin/sh
# Builds the overlay venv (/verif/.venv): /venv's site-packages + /repo/src + crosshair-tool from the offline wheelhouse.
set -e
cd "$(dirname "$0")"
if [ ! -x .venv/bin/crosshair ]; then
  rm -rf .venv
  /venv/bin/python -m venv .venv
  SP=$(.venv/bin/python -c "import site;print(site.getsitepackages()[0])")
  printf '/venv/lib/python3.12/site-packages\n/repo/src\n/verif\n' > "$SP/_verif_overlay.pth"
  PIP_NO_INDEX=1 .venv/bin/pip install -q --no-index --find-links /opt/veriftools/wheels crosshair-tool z3-solver >/dev/null
fi
.venv/bin/python -c "import crosshair, z3, stereomolgraph, rdkit, numpy; print('setup ok', z3.get_version_string())"
