"""Seeded-fault study driver (development aid, DESIGN.md §11.7).  For a patch applied to /repo it decides, per property, whether the *registered check's
input space and bodies* detect it.  A-sel units are evaluated by native enumeration of exactly the same precondition solution set and bodies the check uses
(the CrossHair run adds the exhaustion certificate, not detection power); A-sym and engine-B units are executed through the runner itself."""
import importlib, itertools, json, os, subprocess, sys, time
from multiprocessing import Pool
sys.path[:0] = ['/verif', '/repo/src']
from vp import runner


def _work(args):
    func, kw = args
    try:
        msg = runner._load(func)(**kw)
    except Exception as e:
        msg = "EXC %r" % (e,)
    return kw, msg


def detect(pid, tier="quick", stop_first=True):
    mod = importlib.import_module(f"vp.props.{pid}")
    units = mod.plan(tier, 0)
    t0 = time.time()
    workdir = f"/verif/.work/seed-{pid}-{os.getpid()}"
    os.makedirs(workdir, exist_ok=True)
    with Pool(16) as pool:
        for u in units:
            if isinstance(u, runner.Sel):
                names, sols = runner._solutions(u, [])
                inputs = [(u.func, dict(zip(names, s))) for s in sols]
                for kw, msg in pool.imap_unordered(_work, inputs, chunksize=16):
                    if msg:
                        pool.terminate()
                        return {"detected": True, "unit": u.name, "input": kw, "msg": msg[:300], "s": round(time.time() - t0)}
    for u in units:
        if isinstance(u, runner.Nat):
            r = runner.run_nat(u, tier, 0)
            bad = [o for o in r.get("obligations", []) if o["status"] in ("violation", "error")]
            if r.get("status") in ("counterexample", "harness_error") or bad:
                return {"detected": True, "unit": u.name, "msg": str([(o["name"], o["status"]) for o in bad][:3]) + str(r.get("detail", ""))[:200], "s": round(time.time() - t0)}
    sym = [u for u in units if isinstance(u, runner.Sym)]
    if sym:
        from concurrent.futures import ThreadPoolExecutor
        with ThreadPoolExecutor(16) as ex:
            for u, r in zip(sym, ex.map(lambda u: runner.run_sym(u, workdir), sym)):
                if r["status"] in ("counterexample", "harness_error"):
                    return {"detected": True, "unit": u.name, "msg": str(r.get("cex_msg") or r.get("detail"))[:300], "s": round(time.time() - t0)}
    return {"detected": False, "s": round(time.time() - t0)}


if __name__ == "__main__":
    # default: apply to /repo, run, undo (as the brief prescribes).  SEED_WORKTREE=1: apply in a scratch worktree under /tmp and point the
    # interpreter at its sources instead (used only while a long check run is reading /repo); the worktree is removed afterwards.
    pid, i = sys.argv[1], sys.argv[2]
    checks = sys.argv[3:] or [pid]
    patch = f"/verif/seeded/{pid}-{i}/patch.diff"
    if pid == "refactoring":          # behaviour-preserving refactorings (DESIGN.md 11.8): /verif/refactorings/<name>/patch.diff
        patch = f"/verif/refactorings/{i}/patch.diff"
    scratch = os.environ.get("SEED_WORKTREE") == "1"
    root = "/repo"
    if scratch:
        root = f"/tmp/wt_seedrun_{os.getpid()}"
        p = subprocess.run(["git", "-C", "/repo", "worktree", "add", "--detach", root, "HEAD"], capture_output=True, text=True)
        if p.returncode:
            print(json.dumps({"error": p.stderr}))
            sys.exit(2)
    p = subprocess.run(["git", "-C", root, "apply", patch], capture_output=True, text=True)
    if p.returncode:
        print(json.dumps({"error": p.stderr}))
        if scratch:
            subprocess.run(["git", "-C", "/repo", "worktree", "remove", "--force", root])
        sys.exit(2)
    out = {}
    try:
        for c in checks:
            code = f"import sys; sys.path[:0]=['/verif',{root + '/src'!r}]; import stereomolgraph; assert stereomolgraph.__file__.startswith({root!r}); from vp import seedrun; import json; print('@@'+json.dumps(seedrun.detect({c!r}), default=str))"
            q = subprocess.run(["/verif/.venv/bin/python", "-c", code], capture_output=True, text=True, env=dict(os.environ, PYTHONHASHSEED="0", PYTHONPATH=f"/verif:{root}/src", VERIF_SRC=f"{root}/src"))
            line = [l for l in q.stdout.split("\n") if l.startswith("@@")]
            out[c] = json.loads(line[0][2:]) if line else {"error": (q.stdout + q.stderr)[-500:]}
    finally:
        if scratch:
            subprocess.run(["git", "-C", "/repo", "worktree", "remove", "--force", root])
        else:
            subprocess.run(["git", "-C", "/repo", "checkout", "--", "."])
    print(json.dumps({"seed": f"{pid}-{i}", "results": out}))
