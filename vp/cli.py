import sys
from vp.runner import main
sys.exit(main(sys.argv[1:]))
