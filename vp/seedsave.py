"""Development aid (seeded-fault study, DESIGN.md §11.7): writes /verif/seeded/<seed>/meta.json from the result lines of vp/seedrun.py."""
import json, os, re, sys

ROUND = {"1": 1, "2": 1, "3": 2, "4": 2}


def needs(seed):
    pid, i = seed.split("-")
    first = f"/verif/seeded/{pid}-{'1' if i in '12' else '3'}/notes_both_changes.md"
    return f"see notes_both_changes.md in {os.path.basename(os.path.dirname(first))} (paragraph for change {i if i in '12' else int(i) - 2})"


def main(paths, confirm_path=None):
    confirmed = {}
    if confirm_path and os.path.exists(confirm_path):
        for line in open(confirm_path):
            try:
                d = json.loads(line)
                confirmed[d["seed"]] = d
            except Exception:
                pass
    for path in paths:
        for line in open(path):
            if not line.startswith("{"):
                continue
            d = json.loads(line)
            seed = d["seed"]
            dest = f"/verif/seeded/{seed}"
            if not os.path.isdir(dest):
                continue
            pid, i = seed.split("-")
            old = {}
            if os.path.exists(f"{dest}/meta.json"):
                old = json.load(open(f"{dest}/meta.json"))
            checks = dict(old.get("checks_run", {}))
            for c, r in d["results"].items():
                checks[c] = {"detected": r["detected"], **({"unit": r.get("unit"), "witness_input": r.get("input"), "message": r.get("msg")} if r["detected"] else {})}
            meta = {
                "seed": seed, "breaks_property": pid, "round": ROUND[i],
                "origin": "fresh sub-agent given only the property text and a scratch worktree of /repo (no access to /verif)",
                "confirmed": old.get("confirmed") or confirmed.get(seed, {}).get("confirmed") or {},
                "needs_to_manifest": old.get("needs_to_manifest") or needs(seed),
                "checks_run": checks,
                "how_run": "git -C /repo apply patch.diff; vp/seedrun.py (native enumeration of exactly the quick-tier input space and bodies of the registered check; "
                           "A-sym / engine-B units through the runner); git -C /repo checkout -- .",
                "caught_by": sorted(c for c, r in checks.items() if r["detected"]),
                "not_caught_by": sorted(c for c, r in checks.items() if not r["detected"]),
            }
            json.dump(meta, open(f"{dest}/meta.json", "w"), indent=1)
            print(seed, meta["caught_by"], meta["not_caught_by"])


if __name__ == "__main__":
    main([a for a in sys.argv[1:] if not a.startswith("--confirm=")], next((a.split("=", 1)[1] for a in sys.argv[1:] if a.startswith("--confirm=")), None))
