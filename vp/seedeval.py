"""Development aid for the seeded-fault study (DESIGN.md §11): confirm a sub-agent's change in its scratch worktree, then
run the registered checks against it in /repo (apply, check, undo) and store the kept change under /verif/seeded/<name>/."""
import json, os, shutil, subprocess, sys, time

def sh(cmd, cwd=None, env=None, timeout=3600):
    e = dict(os.environ)
    if env:
        e.update(env)
    p = subprocess.run(cmd, shell=True, cwd=cwd, env=e, capture_output=True, text=True, timeout=timeout)
    return p.returncode, (p.stdout + p.stderr)

def confirm(pid, i):
    wt, sd = f"/tmp/wt_{pid}", f"/tmp/seed_{pid}"
    patch, demo = f"{sd}/patch{i}.diff", f"{sd}/demo{i}.py"
    if not (os.path.exists(patch) and os.path.exists(demo)):
        return {"ok": False, "why": "files missing"}
    env = {"PYTHONPATH": f"{wt}/src"}
    sh("git checkout -- .", cwd=wt)
    rc0, out0 = sh(f"/venv/bin/python {demo}", cwd=wt, env=env, timeout=900)
    rc, out = sh(f"git apply {patch}", cwd=wt)
    if rc:
        return {"ok": False, "why": "patch does not apply: " + out[-300:]}
    rct, outt = sh("/venv/bin/python -m pytest -q -p no:cacheprovider tests/unit 2>&1 | tail -3", cwd=wt, env=env, timeout=1800)
    rc1, out1 = sh(f"/venv/bin/python {demo}", cwd=wt, env=env, timeout=900)
    sh("git checkout -- .", cwd=wt)
    passed = "259 passed" in outt and "failed" not in outt
    return {"ok": rc0 == 0 and rc1 != 0 and passed, "demo_without": rc0, "demo_with": rc1, "tests": outt.strip().split("\n")[-1], "demo_output": out1[-400:]}

def run_checks(pid, i, checks, tier="quick"):
    sd = f"/tmp/seed_{pid}"
    patch = f"{sd}/patch{i}.diff"
    rc, out = sh(f"git -C /repo apply {patch}")
    if rc:
        return {"error": out}
    res = {}
    try:
        for c in checks:
            t = time.time()
            rc, out = sh(f"VERIF_KEEP_EVIDENCE=1 ./check {c} --tier {tier}", cwd="/verif", timeout=3000)
            lines = [l for l in out.split("\n") if l.startswith(("VIOLATION", "  unit=", "HARNESS", "[C"))]
            res[c] = {"exit": rc, "wall": round(time.time() - t), "lines": lines[:6]}
    finally:
        sh("git -C /repo checkout -- .")
    return res

if __name__ == "__main__":
    mode = sys.argv[1]
    if mode == "confirm":
        for pid in sys.argv[2:]:
            for i in (1, 2):
                print(pid, i, json.dumps(confirm(pid, i))[:600], flush=True)
    elif mode == "check":
        pid, i = sys.argv[2], int(sys.argv[3])
        print(json.dumps(run_checks(pid, i, sys.argv[4:]), indent=1))
