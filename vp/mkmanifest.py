"""Regenerates /verif/MANIFEST.json from the property modules that exist (vp/props/Cxx.py with a MANIFEST dict)."""
import importlib, json, os, sys
sys.path[:0] = ["/verif", "/repo/src"]
ROOT = "/verif"
props = [json.loads(l) for l in open(os.path.join(ROOT, "properties.jsonl"))]
NA_DEFAULT = "check under construction (framework build in progress); will be claimed once its check is committed"
checks, na = [], []
for p in props:
    pid = p["id"]
    try:
        mod = importlib.import_module(f"vp.props.{pid}")
        m = getattr(mod, "MANIFEST")
    except Exception as e:
        na.append({"property_id": pid, "reason": getattr(sys.modules.get(f"vp.props.{pid}"), "NOT_APPLICABLE", NA_DEFAULT)})
        continue
    if m.get("not_applicable"):
        na.append({"property_id": pid, "reason": m["not_applicable"]})
        continue
    checks.append({
        "property_id": pid,
        "quick_cmd": f"./check {pid} --tier quick",
        "thorough_cmd": f"./check {pid} --tier thorough",
        "evidence_file": f"/verif/evidence/{pid}.json",
        "replay_cmd_template": f"./check {pid} --replay {{path}}",
        "engine": m.get("engine", "crosshair+z3"),
        "level_claimed": {"category": "model_checking", "text": m["text"], "design_ref": m.get("design_ref", f"DESIGN.md §5 {pid}")},
        "level_note": m["note"],
        "technique": m["technique"],
    })
man = {
    "version": 1,
    "setup_cmd": "./setup.sh",
    "hooks": {"guard": "STEREOMOLGRAPH_VERIF", "enable": "no source hooks: checks analyse the unmodified modules of /repo/src (the guard variable is exported by ./check but read by nothing in /repo)",
              "baseline_off_cmd": "cd /repo && /venv/bin/python -m pytest -ra -q -p no:cacheprovider --timeout=900 --continue-on-collection-errors",
              "source_commits": [], "add_only": True},
    "engines": [
        {"name": "A-sel", "path": "vp/runner.py, vp/lib/sel.py", "kind_free_text": "CrossHair 0.0.110 + z3: bounded selectors concretised by solver-decided branching, real code executed natively per path; 'Confirmed over all paths' + independent count of the precondition's solution set"},
        {"name": "A-sym", "path": "vp/props/*.py (Sym units)", "kind_free_text": "CrossHair symbolic execution of the real descriptor code with unbounded integer identifiers"},
        {"name": "B", "path": "vp/shadow/", "kind_free_text": "real NumPy kernels executed on object arrays of z3 terms; obligations discharged by z3 (cvc5 cross-check in thorough)"},
    ],
    "checks": checks,
    "not_applicable": na,
    "notes": "Technique family: solver-based checking of the real code. All claims are bounded; bounds and what lies outside are in each evidence file and in DESIGN.md.",
}
for e in man["engines"]:
    e["serves_properties"] = [c["property_id"] for c in checks]
json.dump(man, open(os.path.join(ROOT, "MANIFEST.json"), "w"), indent=1)
print("claimed:", [c["property_id"] for c in checks], "n/a:", len(na))
