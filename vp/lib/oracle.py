"""Independent oracles (DESIGN.md §4): spatial symmetry groups computed from idealised coordinates,
brute-force isomorphism over public views.  Nothing here reads PERMUTATION_GROUP / inversion tables
of the library under test."""
from __future__ import annotations

import itertools
from functools import lru_cache

import numpy as np

S3 = 3 ** 0.5

# idealised figures: position index -> coordinates.  Position semantics are those of the class
# docstrings and of xyz2graph.py (see DESIGN.md §4).
FIGURES = {
    # centre 0; ligands 1..4 on alternate cube corners
    "Tet": {0: (0, 0, 0), 1: (1, 1, 1), 2: (1, -1, -1), 3: (-1, 1, -1), 4: (-1, -1, 1)},
    # ligands 1,2,3,4 consecutive corners of a square
    "SP": {0: (0, 0, 0), 1: (1, 0, 0), 2: (0, 1, 0), 3: (-1, 0, 0), 4: (0, -1, 0)},
    # 1,2 axial; 3,4,5 equatorial
    "TBP": {0: (0, 0, 0), 1: (0, 0, 1), 2: (0, 0, -1), 3: (1, 0, 0), 4: (-0.5, S3 / 2, 0), 5: (-0.5, -S3 / 2, 0)},
    # 1/2 trans; 3,4,5,6 around the equator (3/5 and 4/6 trans)
    "Oct": {0: (0, 0, 0), 1: (0, 0, 1), 2: (0, 0, -1), 3: (1, 0, 0), 4: (0, 1, 0), 5: (-1, 0, 0), 6: (0, -1, 0)},
    # 0,1 on atom 2; 4,5 on atom 3; all in one plane; 0 cis to 4
    "PB": {2: (-0.5, 0, 0), 3: (0.5, 0, 0), 0: (-1, 1, 0), 1: (-1, -1, 0), 4: (1, 1, 0), 5: (1, -1, 0)},
    # same, the two end planes perpendicular
    "Atrop": {2: (-0.5, 0, 0), 3: (0.5, 0, 0), 0: (-1, 1, 0), 1: (-1, -1, 0), 4: (1, 0, 1), 5: (1, 0, -1)},
}
# positions that a symmetry operation may only permute among themselves
BLOCKS = {
    "Tet": [(0,), (1, 2, 3, 4)], "SP": [(0,), (1, 2, 3, 4)], "TBP": [(0,), (1, 2, 3, 4, 5)],
    "Oct": [(0,), (1, 2, 3, 4, 5, 6)], "PB": [(0, 1, 4, 5), (2, 3)], "Atrop": [(0, 1, 4, 5), (2, 3)],
}
ARITY = {"Tet": 5, "SP": 5, "TBP": 6, "Oct": 7, "PB": 6, "Atrop": 6}
CHIRAL = {"Tet": True, "SP": False, "TBP": True, "Oct": True, "PB": False, "Atrop": True}


def candidate_perms(kind):
    """All index permutations respecting the block structure (identity on nothing else)."""
    n = ARITY[kind]
    blocks = BLOCKS[kind]
    out = []
    for choice in itertools.product(*[itertools.permutations(b) for b in blocks]):
        perm = [None] * n
        for b, img in zip(blocks, choice):
            for src, dst in zip(b, img):
                perm[src] = dst
        out.append(tuple(perm))
    return out


def _fit(P, Q):
    """Best orthogonal maps M (det +1 and det -1) with M P_i ~ Q_i; returns residuals (r_plus, r_minus)."""
    H = P.T @ Q
    U, S, Vt = np.linalg.svd(H)
    res = []
    for sign in (1, -1):
        D = np.eye(3)
        d = np.linalg.det(Vt.T @ U.T)
        # choose D so that det(M) == sign
        D[2, 2] = sign * (1 if d > 0 else -1)
        M = Vt.T @ D @ U.T
        res.append(float(np.abs((M @ P.T).T - Q).max()))
    return res


@lru_cache(None)
def groups(kind):
    """(PROPER, IMPROPER): sets of index permutations g such that position j of the image holds the
    ligand of position g[j], realised by a proper / improper orthogonal map of the idealised figure."""
    fig = FIGURES[kind]
    n = ARITY[kind]
    centroid = np.mean([fig[i] for i in range(n)], axis=0) if kind in ("PB", "Atrop") else np.zeros(3)
    P = np.array([fig[i] for i in range(n)], dtype=float) - centroid
    proper, improper = set(), set()
    for g in candidate_perms(kind):
        Q = P[list(g)]
        rp, rm = _fit(P, Q)
        if rp < 1e-9:
            proper.add(g)
        if rm < 1e-9:
            improper.add(g)
    return frozenset(proper), frozenset(improper)


def is_group(perms):
    perms = set(perms)
    n = len(next(iter(perms)))
    ident = tuple(range(n))
    if ident not in perms:
        return False
    for a in perms:
        for b in perms:
            if tuple(a[i] for i in b) not in perms:
                return False
    return True


def compose(a, b):
    """(a∘b)[j] = a[b[j]] -- applying b to the tuple a."""
    return tuple(a[i] for i in b)


def perm_parity(p):
    p = list(p)
    sign = 1
    for i in range(len(p)):
        while p[i] != i:
            j = p[i]
            p[i], p[j] = p[j], p[i]
            sign = -sign
    return sign


def same_arrangement(kind, a, pa, b, pb):
    """Oracle for descriptor equality with *specified* parities: is ordering b with parity pb the same
    spatial arrangement as ordering a with parity pa?  Works with duplicate entries (None placeholders)."""
    proper, improper = groups(kind)
    if CHIRAL[kind]:
        s = proper if pa == pb else improper
    else:
        s = proper | improper
    a = tuple(a)
    b = tuple(b)
    return any(tuple(a[i] for i in g) == b for g in s)


def desc_equal(d1, d2):
    """Oracle equality on (kind, atoms, parity) tuples; None parity = wildcard over the same atoms."""
    if d1 is None or d2 is None:
        return d1 is None and d2 is None
    k1, a1, p1 = d1
    k2, a2, p2 = d2
    if k1 != k2:
        return False
    if p1 is None or p2 is None:
        return sorted(map(repr, a1)) == sorted(map(repr, a2))
    if sorted(map(repr, a1)) != sorted(map(repr, a2)):
        return False
    return same_arrangement(k1, a1, p1, a2, p2)


def mirror(d):
    """Mirror image of a descriptor tuple (oracle-side; does not call invert())."""
    if d is None:
        return None
    k, a, p = d
    if p is None or not CHIRAL[k]:
        return d
    return (k, a, -p)
