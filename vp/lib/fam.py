"""State families F(k) (DESIGN.md §5 C09): small graphs of all four classes decoded from selector
values, representation 'flavours', and the table of public operations with their model twins."""
from __future__ import annotations

import itertools

from vp.lib import gl
from vp.lib.gl import CHANGES, Either, Model, Reject, mk_desc

ABSENT = 9          # an identifier that is never an atom of a family member
U3 = (0, 1, 2)
U4 = (0, 1, 2, 3)
EL_PATTERNS = [("C", "C", "C", "C"), ("C", "H", "O", "F"), ("H", "C", "H", "C")]


def pairs(k):
    return list(itertools.combinations(range(k), 2))


# --- selector layout ------------------------------------------------------------------------------
def sel_params(k, stereo, reaction, scrg):
    """Ordered selector table for family F(k)."""
    p = {}
    for i in range(k):
        p[f"p{i}"] = "bool"
    for (i, j) in pairs(k):
        p[f"b{i}{j}"] = "bool"
    p["el"] = (0, len(EL_PATTERNS))
    p["xa"] = "bool"      # extra atom attribute on the first atom, extra bond attribute on the first bond
    if reaction:
        p["role"] = (0, 7)
    if stereo:
        p["ds"] = (0, 11)
    if scrg:
        p["cs"] = (0, 8)
    return p


def sel_pre(k):
    """Preconditions tying bond bits to presence bits (a bond needs both atoms)."""
    pre = []
    for (i, j) in pairs(k):
        pre.append(f"(not b{i}{j}) or (p{i} and p{j})")
    return pre


ROLE_PATTERNS = [
    (),                                  # all plain
    ("formed",), ("broken",), ("fleeting",),
    ("formed", "broken"), ("broken", "fleeting"), ("fleeting", None, "formed"),
]


def decode(cname, k, kw):
    """selector values -> spec (see gl.build)."""
    present = [i for i in range(k) if kw[f"p{i}"]]
    el = EL_PATTERNS[kw.get("el", 0)]
    spec = gl.empty_spec(cname)
    for n, i in enumerate(present):
        attrs = {"x": 1} if (kw.get("xa") and n == 0) else {}
        spec["atoms"].append((i, el[i], attrs))
    blist = [(i, j) for (i, j) in pairs(k) if kw[f"b{i}{j}"]]
    roles = ROLE_PATTERNS[kw.get("role", 0)] if gl.is_reaction(cname) else ()
    for n, (i, j) in enumerate(blist):
        attrs = {"y": 2} if (kw.get("xa") and n == 0) else {}
        role = roles[n] if n < len(roles) else None
        spec["bonds"].append((i, j, role, attrs))
    if gl.is_stereo(cname):
        _decorate(spec, present, blist, kw.get("ds", 0))
    if cname == "SCRG":
        _decorate_changes(spec, present, blist, kw.get("cs", 0))
    return spec


def _nbrs(blist, a):
    return [j if i == a else i for (i, j) in blist if a in (i, j)]


def _pad(t, n):
    t = list(t)
    return tuple(t + [None] * (n - len(t)))


def _tet(a, others, parity):
    return ("Tet", _pad([a] + list(others), 5), parity)


def _pb(kind, a, b, blist, parity):
    na = [x for x in _nbrs(blist, a) if x != b]
    nb = [x for x in _nbrs(blist, b) if x != a]
    return (kind, (*_pad(na, 2), a, b, *_pad(nb, 2)), parity)


def _decorate(spec, present, blist, ds):
    """Descriptor decoration choices on a small graph.  ds=0: none."""
    if ds == 0 or not present:
        return
    a = present[0]
    others = [x for x in present if x != a]
    nb = _nbrs(blist, a)
    if ds == 1:
        spec["astereo"].append(_tet(a, nb, 1))
    elif ds == 2:
        spec["astereo"].append(_tet(a, nb, -1))
    elif ds == 3:
        spec["astereo"].append(_tet(a, nb, None))
    elif ds == 4:
        spec["astereo"].append(("SP", _pad([a] + nb, 5), 0))
    elif ds == 5:   # descriptor mentioning atoms that are not bonded neighbours (allowed by the API)
        spec["astereo"].append(_tet(a, others, 1))
    elif ds == 6 and blist:
        i, j = blist[0]
        spec["bstereo"].append(_pb("PB", i, j, blist, 0))
    elif ds == 7 and blist:
        i, j = blist[0]
        spec["bstereo"].append(_pb("Atrop", i, j, blist, 1))
    elif ds == 8:
        for c in present:
            spec["astereo"].append(_tet(c, _nbrs(blist, c), 1 if c % 2 == 0 else -1))
        for (i, j) in blist[:1]:
            spec["bstereo"].append(_pb("PB", i, j, blist, None))
    elif ds == 10:   # descriptor naming an identifier that is not an atom of the graph (allowed by the API: only the centre is checked)
        missing = [i for i in range(4) if i not in present]
        spec["astereo"].append(_tet(a, nb + missing[:1], -1))
    elif ds == 9 and len(present) >= 2:
        c = present[-1]
        spec["astereo"].append(_tet(c, [x for x in present if x != c], -1))
        if blist:
            i, j = blist[-1]
            spec["bstereo"].append(_pb("Atrop", i, j, blist, -1))


def _decorate_changes(spec, present, blist, cs):
    if cs == 0 or not present:
        return
    a = present[0]
    nb = _nbrs(blist, a)
    # bond stereo changes only on bonds without a reaction role (a 'broken' descriptor on a bond that is absent from the
    # reactant is not a state the reaction API can decompose; outside every property)
    plain = [(i, j) for (i, j, role, _) in spec["bonds"] if role is None]
    tp, tm, tn = _tet(a, nb, 1), _tet(a, nb, -1), _tet(a, nb, None)
    sp = ("SP", _pad([a] + nb, 5), 0)
    if cs == 1:
        spec["achg"].append({"broken": tp})
    elif cs == 2:
        spec["achg"].append({"formed": tm})
    elif cs == 3:
        spec["achg"].append({"broken": tp, "formed": tm})
    elif cs == 4:
        spec["achg"].append({"fleeting": sp})
    elif cs == 5:
        spec["achg"].append({"broken": tp, "fleeting": tn, "formed": sp})
    elif cs == 6 and plain:
        i, j = plain[0]
        spec["bchg"].append({"formed": _pb("PB", i, j, blist, 0)})
    elif cs == 7:
        if plain:
            i, j = plain[0]
            spec["bchg"].append({"broken": _pb("Atrop", i, j, blist, 1), "fleeting": _pb("PB", i, j, blist, 0)})
        if len(present) > 1:
            c = present[1]
            spec["achg"].append({"formed": _tet(c, _nbrs(blist, c), 1)})


# --- representation flavours ------------------------------------------------------------------------
FLAVOURS = ["fresh", "relabel_inplace_identity", "compose_self", "subgraph_all", "copy_constructed",
            "relabel_copy_identity", "copy", "queried"]


def flavour(g, fl):
    """Same abstract graph, different internal representation; reached through the public API only."""
    name = FLAVOURS[fl]
    if name == "fresh":
        return g
    if name == "relabel_inplace_identity":
        r = g.relabel_atoms({}, copy=False)
        return g if r is None else r
    if name == "relabel_copy_identity":
        return g.relabel_atoms({a: a for a in g.atoms}, copy=True)
    if name == "copy_constructed":
        return type(g)(g)
    if name == "subgraph_all":
        atoms = set(g.atoms)
        descs = list(getattr(g, "stereo", {}).values())
        if any(x is not None and x not in atoms for d in descs for x in d.atoms):
            return g     # a descriptor naming an identifier that is not an atom is (correctly) not part of any subgraph: flavour not applicable
        return g.subgraph(list(g.atoms))
    if name == "compose_self":
        return type(g).compose([g])
    if name == "copy":
        return g.copy()
    if name == "queried":
        for a in list(g.atoms):
            g.bonded_to(a)
            g.get_atom_attribute(a, "zzz")
        g.connected_components()
        hash(g)
        return g
    raise AssertionError(fl)


# --- operation table -------------------------------------------------------------------------------
class Op:
    """One public operation with a fixed argument tuple: apply to the real object / to the model."""

    def __init__(self, name, args, real, model, kind):
        self.name, self.args, self.real, self.model, self.kind = name, args, real, model, kind

    def __repr__(self):
        return f"{self.name}{self.args!r}"


def _ids(k):
    return list(range(k)) + [ABSENT]


def _desc_choices(k, a):
    """descriptors centred on atom a (exact tuples) used as arguments of set_atom_stereo etc."""
    ids = [i for i in range(k) if i != a]
    return [
        ("Tet", (a, *_pad(ids[:2], 4)), 1),
        ("Tet", (a, *_pad(ids[:3], 4)), -1),
        ("SP", (a, *_pad(list(reversed(ids))[:3], 4)), 0),
        ("Tet", (a, *_pad(ids[:1], 4)), None),
    ]


def _bdesc_choices(k, a, b):
    ids = [i for i in range(k) if i not in (a, b)]
    x = ids[0] if ids else None
    return [
        ("PB", (x, None, a, b, None, None), 0),
        ("Atrop", (None, x, b, a, None, None), -1),
        ("PB", (None, None, a, b, x, None), None),
    ]


MUTATOR_KINDS = {
    "MG": ["add_atom", "remove_atom", "set_atom_attribute", "delete_atom_attribute", "add_bond", "remove_bond",
           "set_bond_attribute", "delete_bond_attribute", "relabel_inplace", "bonds_from_matrix"],
    "SMG": ["set_atom_stereo", "delete_atom_stereo", "set_bond_stereo", "delete_bond_stereo"],
    "CRG": ["add_role_bond", "add_bond_reaction_attr", "set_bond_attribute_reaction"],
    "SCRG": ["set_atom_stereo_change", "set_bond_stereo_change", "delete_atom_stereo_change", "delete_bond_stereo_change"],
}
QUERY_KINDS = {
    "MG": ["q_has", "q_get_atom", "q_get_bond", "q_bonded_to", "q_matrix_components", "q_eq_hash", "q_str_len",
           "q_derive", "q_export"],
    "SMG": ["q_stereo_get", "q_enantiomer_valid"],
    "CRG": ["q_reaction"],
    "SCRG": ["q_changes_get"],
}


def kinds_for(cname, which):
    tab = MUTATOR_KINDS if which == "mut" else QUERY_KINDS
    out = list(tab["MG"])
    if gl.is_stereo(cname):
        out += tab["SMG"]
    if gl.is_reaction(cname):
        out += tab["CRG"]
    if cname == "SCRG":
        out += tab["SCRG"]
    return out


def all_public_methods(cname):
    cls = gl.CLS[cname]
    return sorted(n for n in dir(cls) if not n.startswith("_") and callable(getattr(cls, n)))


# which public methods each op kind exercises (used to make a new public method without a model fail loudly)
COVERS = {
    "add_atom": ["add_atom"], "remove_atom": ["remove_atom"], "set_atom_attribute": ["set_atom_attribute"],
    "delete_atom_attribute": ["delete_atom_attribute"], "add_bond": ["add_bond"], "remove_bond": ["remove_bond"],
    "set_bond_attribute": ["set_bond_attribute"], "delete_bond_attribute": ["delete_bond_attribute"],
    "relabel_inplace": ["relabel_atoms"], "bonds_from_matrix": ["bonds_from_bond_order_matrix"],
    "set_atom_stereo": ["set_atom_stereo"], "delete_atom_stereo": ["delete_atom_stereo"],
    "set_bond_stereo": ["set_bond_stereo"], "delete_bond_stereo": ["delete_bond_stereo"],
    "add_role_bond": ["add_formed_bond", "add_broken_bond", "add_fleeting_bond"],
    "add_bond_reaction_attr": ["add_bond"], "set_bond_attribute_reaction": ["set_bond_attribute"],
    "set_atom_stereo_change": ["set_atom_stereo_change"], "set_bond_stereo_change": ["set_bond_stereo_change"],
    "delete_atom_stereo_change": ["delete_atom_stereo_change"], "delete_bond_stereo_change": ["delete_bond_stereo_change"],
    "q_has": ["has_atom", "has_bond"], "q_get_atom": ["get_atom_attribute", "get_atom_type", "get_atom_attributes"],
    "q_get_bond": ["get_bond_attribute", "get_bond_attributes"], "q_bonded_to": ["bonded_to", "node_connected_component"],
    "q_matrix_components": ["connectivity_matrix", "connected_components"],
    "q_eq_hash": ["is_isomorphic"], "q_str_len": [],
    "q_derive": ["copy", "subgraph", "relabel_atoms", "compose"], "q_export": ["to_rdmol"],
    "q_stereo_get": ["get_atom_stereo", "get_bond_stereo"], "q_enantiomer_valid": ["enantiomer", "is_stereo_valid"],
    "q_reaction": ["get_formed_bonds", "get_broken_bonds", "get_fleeting_bonds", "active_atoms", "reactant", "product",
                   "reverse_reaction"],
    "q_changes_get": ["get_atom_stereo_change", "get_bond_stereo_change"],
}
# public callables that are constructors / class-level builders, covered by other properties (C07, C08, C12, C20)
NOT_EDITING = {"from_rdmol", "from_geometry", "from_geometries", "from_graphs", "from_atom_types_and_bond_order_matrix",
               "from_geometry_and_bond_order_matrix"}


def uncovered_methods(cname):
    cov = set()
    for k in kinds_for(cname, "mut") + kinds_for(cname, "qry"):
        cov.update(COVERS[k])
    return [m for m in all_public_methods(cname) if m not in cov and m not in NOT_EDITING]


def ops_of_kind(cname, kind, k):
    """All argument instantiations of one op kind over universe U_k ∪ {ABSENT}."""
    ids = _ids(k)
    out = []

    def add(name, args, real, model):
        out.append(Op(name, args, real, model, kind))

    if kind == "add_atom":
        for a in ids:
            for t, extra in (("N", {}), ("Xx", {}), (7, {"x": 5}), (0, {}), (None, {})):
                add("add_atom", (a, t, extra), lambda g, a=a, t=t, e=extra: g.add_atom(a, t, **e),
                    lambda m, a=a, t=t, e=extra: m.add_atom(a, t, **e))
    elif kind == "remove_atom":
        for a in ids:
            add("remove_atom", (a,), lambda g, a=a: g.remove_atom(a), lambda m, a=a: m.remove_atom(a))
    elif kind == "set_atom_attribute":
        for a in ids:
            for attr, v in (("atom_type", "O"), ("atom_type", "Qq"), ("atom_type", None), ("x", 7), ("w", [1])):
                add("set_atom_attribute", (a, attr, v), lambda g, a=a, at=attr, v=v: g.set_atom_attribute(a, at, v),
                    lambda m, a=a, at=attr, v=v: m.set_atom_attribute(a, at, v))
    elif kind == "delete_atom_attribute":
        for a in ids:
            for attr in ("atom_type", "x", "nope"):
                add("delete_atom_attribute", (a, attr), lambda g, a=a, at=attr: g.delete_atom_attribute(a, at),
                    lambda m, a=a, at=attr: m.delete_atom_attribute(a, at))
    elif kind == "add_bond":
        for a in ids:
            for b in ids:
                for extra in ({}, {"y": 3}):
                    add("add_bond", (a, b, extra), lambda g, a=a, b=b, e=extra: g.add_bond(a, b, **e),
                        lambda m, a=a, b=b, e=extra: m.add_bond(a, b, **e))
    elif kind == "remove_bond":
        for a in ids:
            for b in ids:
                add("remove_bond", (a, b), lambda g, a=a, b=b: g.remove_bond(a, b), lambda m, a=a, b=b: m.remove_bond(a, b))
    elif kind == "set_bond_attribute":
        for a in ids:
            for b in ids:
                add("set_bond_attribute", (a, b, "y", 4), lambda g, a=a, b=b: g.set_bond_attribute(a, b, "y", 4),
                    lambda m, a=a, b=b: m.set_bond_attribute(a, b, "y", 4))
    elif kind == "delete_bond_attribute":
        for a in ids:
            for b in ids:
                for attr in ("y", "nope"):
                    add("delete_bond_attribute", (a, b, attr), lambda g, a=a, b=b, at=attr: g.delete_bond_attribute(a, b, at),
                        lambda m, a=a, b=b, at=attr: m.delete_bond_attribute(a, b, at))
    elif kind == "relabel_inplace":
        maps = [{}, {0: 5}, {0: 1, 1: 0}, {1: 7, 2: 1}, {0: 1, 1: 2, 2: 0}, {ABSENT: 4}, {0: -3, 2: 1 << 40}]
        for mp in maps:
            add("relabel_atoms_inplace", (mp,), lambda g, mp=mp: g.relabel_atoms(dict(mp), copy=False),
                lambda m, mp=mp: m.relabel(mp))
    elif kind == "bonds_from_matrix":
        import numpy as np
        mats = {"upper": [[0, 1, 0.2], [0, 0, 1], [0, 0, 0]], "symmetric": [[0, 1, 1], [1, 0, 0], [1, 0, 0]], "diagonal": [[1, 0, 1], [0, 0, 0], [0, 0, 0]],
                "late_diagonal": [[0, 1, 0], [0, 0, 0], [0, 0, 1]], "empty": [[0, 0, 0], [0, 0, 0], [0, 0, 0]]}
        for nm, m3 in mats.items():
            for n in range(0, k + 1):
                mat = np.array([row[:n] for row in m3[:n]], dtype=float).reshape(n, n) if n <= 3 else np.zeros((n, n))
                for inc in (False, True):
                    add("bonds_from_bond_order_matrix", (nm, n, inc),
                        lambda g, mat=mat, inc=inc: g.bonds_from_bond_order_matrix(mat, include_bond_order=inc),
                        lambda m, mat=mat, inc=inc: m.bonds_from_matrix(mat, inc))
    elif kind == "set_atom_stereo":
        for a in ids:
            for d in _desc_choices(k, a):
                add("set_atom_stereo", (d,), lambda g, d=d: g.set_atom_stereo(mk_desc(d)), lambda m, d=d: m.set_atom_stereo(d))
    elif kind == "delete_atom_stereo":
        for a in ids:
            add("delete_atom_stereo", (a,), lambda g, a=a: g.delete_atom_stereo(a), lambda m, a=a: m.delete_atom_stereo(a))
    elif kind == "set_bond_stereo":
        for a in ids:
            for b in ids:
                if a < b:
                    for d in _bdesc_choices(k, a, b):
                        add("set_bond_stereo", (d,), lambda g, d=d: g.set_bond_stereo(mk_desc(d)), lambda m, d=d: m.set_bond_stereo(d))
    elif kind == "delete_bond_stereo":
        for a in ids:
            for b in ids:
                if a < b:
                    add("delete_bond_stereo", ((a, b),), lambda g, a=a, b=b: g.delete_bond_stereo((a, b)),
                        lambda m, a=a, b=b: m.delete_bond_stereo((a, b)))
    elif kind == "add_role_bond":
        for role in ("formed", "broken", "fleeting"):
            for a in ids:
                for b in ids:
                    add(f"add_{role}_bond", (a, b), lambda g, r=role, a=a, b=b: getattr(g, f"add_{r}_bond")(a, b),
                        lambda m, r=role, a=a, b=b: m.add_role_bond(r, a, b))
    elif kind == "add_bond_reaction_attr":
        from stereomolgraph.graphs.crg import Change
        for a, b in ((0, 1), (1, 2), (0, ABSENT)):
            for v in (Change.FORMED, "formed", None, 1):
                add("add_bond", (a, b, {"reaction": v}), lambda g, a=a, b=b, v=v: g.add_bond(a, b, reaction=v),
                    lambda m, a=a, b=b, v=v: m.add_bond(a, b, reaction=v))
    elif kind == "set_bond_attribute_reaction":
        from stereomolgraph.graphs.crg import Change
        for a, b in ((0, 1), (1, 2), (0, ABSENT)):
            for v in (Change.BROKEN, "broken", None):
                add("set_bond_attribute", (a, b, "reaction", v), lambda g, a=a, b=b, v=v: g.set_bond_attribute(a, b, "reaction", v),
                    lambda m, a=a, b=b, v=v: m.set_bond_attribute(a, b, "reaction", v))
    elif kind == "set_atom_stereo_change":
        for a in ids:
            ds = _desc_choices(k, a)
            other = _desc_choices(k, (a + 1) % k)[0]
            for kw in ({"broken": ds[0]}, {"formed": ds[1], "fleeting": ds[2]}, {"broken": ds[0], "formed": other},
                       {"broken": ds[3], "formed": ds[1], "fleeting": ds[2]}, {}):
                add("set_atom_stereo_change", (kw,),
                    lambda g, kw=kw: g.set_atom_stereo_change(**{c: mk_desc(d) for c, d in kw.items()}),
                    lambda m, kw=kw: m.set_atom_stereo_change(**kw))
    elif kind == "set_bond_stereo_change":
        for a in ids:
            for b in ids:
                if a < b:
                    ds = _bdesc_choices(k, a, b)
                    oth = _bdesc_choices(k, 0 if a != 0 else 1, 2 if b != 2 else 1)[0]
                    for kw in ({"formed": ds[0]}, {"broken": ds[1], "fleeting": ds[0]}, {"broken": ds[0], "formed": oth}):
                        add("set_bond_stereo_change", (kw,),
                            lambda g, kw=kw: g.set_bond_stereo_change(**{c: mk_desc(d) for c, d in kw.items()}),
                            lambda m, kw=kw: m.set_bond_stereo_change(**kw))
    elif kind == "delete_atom_stereo_change":
        for a in ids:
            for ch in (None, "broken", "formed", "fleeting"):
                add("delete_atom_stereo_change", (a, ch),
                    lambda g, a=a, ch=ch: g.delete_atom_stereo_change(a, CHANGES[ch] if ch else None),
                    lambda m, a=a, ch=ch: m.delete_atom_stereo_change(a, ch))
    elif kind == "delete_bond_stereo_change":
        for a in ids:
            for b in ids:
                if a < b:
                    for ch in (None, "formed", "fleeting"):
                        add("delete_bond_stereo_change", ((a, b), ch),
                            lambda g, a=a, b=b, ch=ch: g.delete_bond_stereo_change((a, b), CHANGES[ch] if ch else None),
                            lambda m, a=a, b=b, ch=ch: m.delete_bond_stereo_change((a, b), ch))
    # ---------------- read-only queries: model op is the identity --------------------------------
    elif kind == "q_has":
        for a in ids:
            add("has_atom", (a,), lambda g, a=a: g.has_atom(a), None)
            for b in ids:
                add("has_bond", (a, b), lambda g, a=a, b=b: g.has_bond(a, b), None)
    elif kind == "q_get_atom":
        for a in ids:
            add("get_atom_attribute", (a, "x"), lambda g, a=a: g.get_atom_attribute(a, "x"), None)
            add("get_atom_attribute", (a, "atom_type"), lambda g, a=a: g.get_atom_attribute(a, "atom_type"), None)
            add("get_atom_type", (a,), lambda g, a=a: g.get_atom_type(a), None)
            add("get_atom_attributes", (a,), lambda g, a=a: dict(g.get_atom_attributes(a)), None)
            add("get_atom_attributes", (a, ["atom_type"]), lambda g, a=a: dict(g.get_atom_attributes(a, ["atom_type"])), None)
    elif kind == "q_get_bond":
        for a in ids:
            for b in ids:
                add("get_bond_attribute", (a, b, "y"), lambda g, a=a, b=b: g.get_bond_attribute(a, b, "y"), None)
                add("get_bond_attributes", (a, b), lambda g, a=a, b=b: dict(g.get_bond_attributes(a, b)), None)
                add("get_bond_attributes", (a, b, ["y"]), lambda g, a=a, b=b: dict(g.get_bond_attributes(a, b, ["y"])), None)
    elif kind == "q_bonded_to":
        for a in ids:
            add("bonded_to", (a,), lambda g, a=a: g.bonded_to(a), None)
            add("node_connected_component", (a,), lambda g, a=a: g.node_connected_component(a), None)
    elif kind == "q_matrix_components":
        add("connectivity_matrix", (), lambda g: g.connectivity_matrix(), None)
        add("connected_components", (), lambda g: g.connected_components(), None)
    elif kind == "q_eq_hash":
        add("eq_self", (), lambda g: g == g, None)
        add("eq_copy", (), lambda g: g == g.copy(), None)
        add("is_isomorphic", (), lambda g: g.is_isomorphic(g.copy()), None)
        add("hash", (), lambda g: hash(g), None)
        add("eq_other_class", (), lambda g: g == gl.MolGraph() or g == gl.StereoMolGraph(), None)
    elif kind == "q_str_len":
        add("str", (), lambda g: str(g), None)
        add("repr", (), lambda g: repr(g), None)
        add("len", (), lambda g: (len(g), g.n_atoms), None)
        add("views", (), lambda g: (list(g.atoms), g.atom_types, list(g.bonds), dict(g.neighbors)), None)
    elif kind == "q_derive":
        add("copy", (), lambda g: g.copy(), None)
        add("copy_construct", (), lambda g: type(g)(g), None)
        add("relabel_copy", ({0: 5},), lambda g: g.relabel_atoms({0: 5}, copy=True), None)
        add("compose", (), lambda g: type(g).compose([g, g]), None)
        for sub in ((), (0,), (0, 1), (1, 2), (0, 1, 2)):
            add("subgraph", (sub,), lambda g, sub=sub: g.subgraph([a for a in sub if a in g.atoms]), None)
    elif kind == "q_export":
        add("to_rdmol_noBO", (), lambda g: g._to_rdmol(generate_bond_orders=False), None)
        from stereomolgraph.experimental import JSONHandler
        add("json_serialize", (), lambda g: JSONHandler.json_serialize(g), None)
    elif kind == "q_stereo_get":
        for a in ids:
            add("get_atom_stereo", (a,), lambda g, a=a: g.get_atom_stereo(a), None)
            for b in ids:
                add("get_bond_stereo", ((a, b),), lambda g, a=a, b=b: g.get_bond_stereo((a, b)), None)
        add("stereo_views", (), lambda g: (dict(g.stereo), dict(g.atom_stereo), dict(g.bond_stereo)), None)
    elif kind == "q_enantiomer_valid":
        add("enantiomer", (), lambda g: g.enantiomer(), None)
        add("is_stereo_valid", (), lambda g: g.is_stereo_valid(), None)
    elif kind == "q_reaction":
        add("get_role_bonds", (), lambda g: (g.get_formed_bonds(), g.get_broken_bonds(), g.get_fleeting_bonds()), None)
        add("active_atoms", (), lambda g: (g.active_atoms(), g.active_atoms(1)), None)
        add("reactant", (), lambda g: (g.reactant(), g.reactant(keep_attributes=False)), None)
        add("product", (), lambda g: (g.product(), g.product(keep_attributes=False)), None)
        add("reverse_reaction", (), lambda g: g.reverse_reaction(), None)
    elif kind == "q_changes_get":
        for a in ids:
            add("get_atom_stereo_change", (a,), lambda g, a=a: g.get_atom_stereo_change(a), None)
            for b in ids:
                add("get_bond_stereo_change", ((a, b),), lambda g, a=a, b=b: g.get_bond_stereo_change((a, b)), None)
        add("change_views", (), lambda g: (dict(g.atom_stereo_changes), dict(g.bond_stereo_changes)), None)
        for a in ids:
            # look-ups through the public mapping views themselves (subscript, get, membership)
            add("atom_stereo_changes[...]", (a,), lambda g, a=a: (a in g.atom_stereo_changes, g.atom_stereo_changes.get(a), g.atom_stereo_changes[a]), None)
            for b in ids:
                if a < b:
                    add("bond_stereo_changes[...]", ((a, b),),
                        lambda g, a=a, b=b: (g.bond_stereo_changes.get(frozenset((a, b))), g.bond_stereo_changes[frozenset((a, b))]), None)
    else:
        raise AssertionError(kind)
    return out


def apply_model(m: Model, op: Op):
    """Returns ('ok'|'reject'|'either', model-after)."""
    import copy
    m2 = copy.deepcopy(m)
    try:
        op.model(m2)
        return "ok", m2
    except Reject:
        return "reject", m
    except Either:
        return "either", m
