"""Shared bodies for C01 / C03 (transformations that must preserve equality and hash)."""
from __future__ import annotations

import random

from vp.lib import eqfam, gl, tmpl


def variants(spec, gi, flip, seed=0, cap=12):
    """Yield (description, graph) for re-expressions of `spec` that denote the same graph."""
    g = gl.build(spec)
    atoms = tmpl.atoms_of(spec)
    rng = random.Random(seed * 7919 + gi)
    maps = tmpl.renamings(atoms, seed, cap=cap)
    for m in maps:
        yield f"relabel_atoms({m})", g.relabel_atoms(dict(m), copy=True)
    h = gl.build(spec)
    if atoms:
        h.relabel_atoms(dict(maps[-1]), copy=False)
        yield f"relabel_atoms({maps[-1]}, copy=False)", h
    yield "copy", g.copy()
    if atoms:
        scr = sorted(atoms, key=lambda a: (hash((a, gi)) % 7, -a if isinstance(a, int) else 0))
        yield f"subgraph({scr}) (all atoms, scrambled order)", g.subgraph(scr)
        yield "compose([g])", type(g).compose([g])
        yield "copy-constructed", type(g)(g)
    if atoms:
        # a scratch atom is added, bonded and removed again; then its identifier is re-used (by a renaming / by a second scratch atom)
        ints = [a for a in atoms if isinstance(a, int)]
        t = (max(ints) if ints else 0) + 7
        bonded = sorted({x for b in g.bonds for x in b}, key=repr)
        a0 = bonded[0] if bonded else atoms[0]
        h = g.copy()
        h.add_atom(t, "H")
        h.add_bond(t, a0)
        h.remove_atom(t)
        yield f"copy + add_atom({t}) + add_bond({t},{a0}) + remove_atom({t})", h.copy()
        a1 = [a for a in atoms if a != a0][-1] if len(atoms) > 1 else a0
        h2 = h.copy()
        h2.relabel_atoms({a1: t}, copy=False)
        yield f"scratch atom {t} added/bonded/removed, then relabel_atoms({{{a1}: {t}}}, copy=False)", h2
        h.add_atom(t, "H")
        h.remove_atom(t)
        yield f"scratch atom {t} added/bonded/removed, added again and removed", h
    yield "re-inserted in another order", gl.build(tmpl.reorder(spec, rng))
    rw = tmpl.rewrite(spec, gi, flip)
    yield f"descriptors rewritten (group element {gi}, flip={flip})", gl.build(rw)
    for m in maps[:: max(1, len(maps) // 4)]:
        yield (f"descriptors rewritten (g{gi}, flip={flip}) + renamed {m} + reordered",
               gl.build(tmpl.reorder(tmpl.rename(rw, m), rng)))


def small_unit_params(cname, k):
    p = {"cls": (gl.CLS_NAMES.index(cname), gl.CLS_NAMES.index(cname) + 1)}
    p.update(eqfam.small_params(cname, k))
    return p


def family_units(tier, func_mod, quick_thin=True):
    """The C01 unit table (small graphs of all classes + templates) without the transformation selectors gi/flip."""
    from vp.props import C01
    out = []
    for u in C01.plan(tier, 0, func_mod=func_mod):
        params = {k: v for k, v in u.params.items() if k not in ("gi", "flip")}
        pre = [p for p in u.pre if "gi" not in p.replace("lig", "") and "flip" not in p]
        u.params, u.pre = params, pre
        u.nontrivial = None
        out.append(u)
    return out
