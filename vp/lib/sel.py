"""Harness-side helpers for engine A-sel (see DESIGN.md §1.2).

`cint` / `cbool` concretise a bounded symbolic selector by *symbolic branching under tracing*:
every comparison is a two-way fork whose feasibility z3 decides against the harness preconditions.
`run_native` then executes the harness body on the concrete values with CrossHair tracing switched
off (the real library code runs natively) and logs the executed input to a per-shard side file.
"""
from __future__ import annotations

import json
import os
import traceback


def cint(x, lo: int, hi: int) -> int:
    """Concrete value of symbolic int x, known to lie in [lo, hi)."""
    for v in range(lo, hi - 1):
        if x == v:
            return v
    return hi - 1


def cval(x, values):
    """Concrete value of symbolic int x, known to be one of `values`."""
    for v in values[:-1]:
        if x == v:
            return v
    return values[-1]


def cbool(b) -> bool:
    return True if b else False


def _no_tracing():
    try:
        from crosshair.tracers import NoTracing
        return NoTracing()
    except Exception:  # pragma: no cover - replay without crosshair
        import contextlib
        return contextlib.nullcontext()


def run_native(func, logfile, /, **kw) -> bool:
    """Run body `func(**kw)` natively. Body returns None when the property held, else a message.

    Returns True iff the property held.  Any `Exception` escaping the body is a failure too (the
    body itself decides which exceptions of the library are legitimate)."""
    with _no_tracing():
        try:
            msg = func(**kw)
        except Exception as e:  # only Exception: CrossHair steers with BaseException
            msg = "EXC %s: %s | %s" % (type(e).__name__, e, traceback.format_exc(limit=6).replace("\n", " / "))
        if logfile:
            with open(logfile, "a") as fh:
                fh.write(json.dumps({"in": kw, "ok": msg is None, "msg": msg}, sort_keys=True) + "\n")
        return msg is None
