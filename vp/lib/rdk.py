"""Helpers that drive the *real* RDKit (the environment of the converters) natively inside A-sel harness bodies."""
from __future__ import annotations

import itertools

import numpy as np
from rdkit import Chem
from rdkit.Chem import rdchem
from rdkit.Geometry import Point3D

from vp.lib import oracle

TAGS = {"Tet": None, "SP": Chem.ChiralType.CHI_SQUAREPLANAR, "TBP": Chem.ChiralType.CHI_TRIGONALBIPYRAMIDAL, "Oct": Chem.ChiralType.CHI_OCTAHEDRAL}
NLABELS = {"SP": 3, "TBP": 20, "Oct": 30}
CENTRE = {"Tet": "C", "SP": "Pt", "TBP": "P", "Oct": "S"}
LIGS = ["H", "F", "Cl", "Br", "I", "O"]


def star_mol(kind, order, label=None, tet_tag=None, k=None, map_nums=None, lig_elems=None):
    """centre (idx 0) + k ligand atoms (idx 1..k); bonds inserted in `order` (tuple of ligand indices 1..k) -> RDKit neighbour
    order = insertion order.  label: _chiralPermutation for SP/TBP/Oct; tet_tag: 'CW' / 'CCW' / None for Tet."""
    k = k or {"Tet": 4, "SP": 4, "TBP": 5, "Oct": 6}[kind]
    m = Chem.RWMol()
    a = Chem.Atom(CENTRE[kind])
    a.SetNoImplicit(True)
    m.AddAtom(a)
    ligs = lig_elems or LIGS
    for j in range(k):
        la = Chem.Atom(ligs[j])
        la.SetNoImplicit(True)
        m.AddAtom(la)
    for j in order:
        m.AddBond(0, j, Chem.BondType.SINGLE)
    c = m.GetAtomWithIdx(0)
    if kind == "Tet":
        if tet_tag == "CW":
            c.SetChiralTag(Chem.ChiralType.CHI_TETRAHEDRAL_CW)
        elif tet_tag == "CCW":
            c.SetChiralTag(Chem.ChiralType.CHI_TETRAHEDRAL_CCW)
    else:
        c.SetChiralTag(TAGS[kind])
        c.SetUnsignedProp("_chiralPermutation", int(label))
    if map_nums:
        for i, n in enumerate(map_nums):
            m.GetAtomWithIdx(i).SetAtomMapNum(int(n))
    return m


def neighbor_order(m, idx=0):
    return tuple(n.GetIdx() for n in m.GetAtomWithIdx(idx).GetNeighbors())


def canon(m):
    """RDKit's own canonical SMILES (with stereo) - the environment's notion of 'same stereoisomer'"""
    mm = Chem.Mol(m)
    for a in mm.GetAtoms():
        a.SetAtomMapNum(0)
    try:
        Chem.SanitizeMol(mm, Chem.SanitizeFlags.SANITIZE_ALL ^ Chem.SanitizeFlags.SANITIZE_PROPERTIES)
    except Exception:
        pass
    Chem.AssignStereochemistry(mm, cleanIt=False, force=True)
    return Chem.MolToSmiles(mm)


def with_conformer(m, xyz):
    conf = Chem.Conformer(m.GetNumAtoms())
    for i, p in enumerate(xyz):
        conf.SetAtomPosition(i, Point3D(float(p[0]), float(p[1]), float(p[2])))
    conf.Set3D(True)
    m.RemoveAllConformers()
    m.AddConformer(conf, assignId=True)
    return m


def assign_from_3d(m):
    mm = Chem.Mol(m)
    Chem.AssignStereochemistryFrom3D(mm)
    return mm


def label_of(m, idx=0):
    a = m.GetAtomWithIdx(idx)
    return (a.GetChiralTag(), a.GetUnsignedProp("_chiralPermutation") if a.HasProp("_chiralPermutation") else None)


def ethene_mol(order_begin_end, stereo, stereo_atoms, subs=("H", "F", "Cl", "Br"), bond_order=Chem.BondType.DOUBLE, swap_bond=False):
    """X(0)Y(1)C(2)=C(3)Z(4)W(5).  order: insertion order of the four substituent bonds and the central bond."""
    m = Chem.RWMol()
    for el in (subs[0], subs[1], "C", "C", subs[2], subs[3]):
        a = Chem.Atom(el)
        a.SetNoImplicit(True)
        m.AddAtom(a)
    bonds = [(0, 2), (1, 2), (2, 3) if not swap_bond else (3, 2), (4, 3), (5, 3)]
    for i in order_begin_end:
        a, b = bonds[i]
        m.AddBond(a, b, bond_order if set((a, b)) == {2, 3} else Chem.BondType.SINGLE)
    b = m.GetBondBetweenAtoms(2, 3)
    if stereo is not None:
        # stereo atoms are given as (neighbour of begin atom, neighbour of end atom)
        sa = stereo_atoms if b.GetBeginAtomIdx() == 2 else (stereo_atoms[1], stereo_atoms[0])
        b.SetStereoAtoms(int(sa[0]), int(sa[1]))
        b.SetStereo(stereo)
    return m
