"""Template molecules / reactions with real (placeholder-free) stereo units, and spec transformations
(renaming, insertion order, symmetry-equivalent descriptor rewriting, single-feature mutations)."""
from __future__ import annotations

import itertools
import random

from vp.lib import gl, oracle

LIG4 = [("H", "F", "Cl", "Br"), ("H", "H", "F", "Cl"), ("F", "F", "Cl", "Cl"), ("H", "H", "H", "F"), ("Cl", "Cl", "Cl", "Cl")]
LIG5 = [("H", "F", "Cl", "Br", "I"), ("F", "F", "Cl", "Cl", "Cl"), ("F", "F", "F", "F", "F"), ("H", "H", "F", "Cl", "Br")]
LIG6 = [("H", "F", "Cl", "Br", "I", "O"), ("F", "F", "Cl", "Cl", "Br", "Br"), ("F", "F", "F", "Cl", "Cl", "Cl"),
        ("F", "F", "F", "F", "F", "F"), ("H", "H", "F", "F", "Cl", "Br")]


def _spec(cname):
    return gl.empty_spec(cname)


def perm_of(kind, idx):
    return oracle.candidate_perms(kind)[idx]


def n_perms(kind):
    return len(oracle.candidate_perms(kind))


def star(cname, k, lig, kind, order, parity, centre_el=None):
    """centre 0 with ligands 1..k; descriptor `kind` on the centre with ordering = canonical∘perm[order]."""
    s = _spec(cname)
    ligs = {4: LIG4, 5: LIG5, 6: LIG6}[k][lig] if k in (4, 5, 6) and kind is not None else bare_ligands(k, lig)
    cel = centre_el or {4: "C", 5: "P", 6: "S"}.get(k, "I")
    if kind == "SP":
        cel = "Pt"
    s["atoms"] = [(0, cel, {})] + [(i + 1, ligs[i], {}) for i in range(k)]
    s["bonds"] = [(0, i + 1, None, {}) for i in range(k)]
    if kind is not None:
        base = tuple(range(k + 1))
        g = perm_of(kind, order)
        s["astereo"] = [(kind, tuple(base[i] for i in g), parity)]
    return s


def bare_ligands(k, lig):
    """ligand elements of a centre without descriptor: 0 all alike, 1 groups of sizes ~k/2, ~k/3, rest, 2 all different (k <= 8)"""
    els = ["F", "Cl", "Br", "H", "O", "S", "N", "B"]
    if lig == 0:
        return ["F"] * k
    if lig == 1:
        a = (k + 1) // 2
        b = (k - a + 1) // 2
        return (["F"] * a + ["Cl"] * b + ["Br"] * (k - a - b))[:k]
    return els[:k]


def lonepair(cname, lig, order, parity):
    """centre N(0) with three ligands 1..3 and a lone-pair placeholder."""
    s = _spec(cname)
    ligs = LIG4[lig][:3]
    s["atoms"] = [(0, "N", {})] + [(i + 1, ligs[i], {}) for i in range(3)]
    s["bonds"] = [(0, i + 1, None, {}) for i in range(3)]
    base = (0, 1, 2, 3, None)
    g = perm_of("Tet", order)
    s["astereo"] = [("Tet", tuple(base[i] for i in g), parity)]
    return s


DB_SUBST = [("H", "F", "H", "F"), ("H", "F", "Cl", "Br"), ("H", "H", "F", "Cl"), ("F", "F", "Cl", "Cl"), ("H", "F", "H", None), ("H", None, "F", None),
            ("H", "F", "H", "Cl"), ("H", "Cl", "H", "Br")]


def dbond(cname, sub, kind, order, parity):
    """X(0)Y(1)C(2)=C(3)Z(4)W(5); `None` substituent = missing atom (placeholder in the descriptor)."""
    s = _spec(cname)
    subs = DB_SUBST[sub]
    pos = {0: subs[0], 1: subs[1], 4: subs[2], 5: subs[3]}
    s["atoms"] = [(2, "C", {}), (3, "C" if subs[3] is not None else "N", {})]
    for i in (0, 1, 4, 5):
        if pos[i] is not None:
            s["atoms"].append((i, pos[i], {}))
    s["bonds"] = [(2, 3, None, {})] + [((2 if i < 2 else 3), i, None, {}) for i in (0, 1, 4, 5) if pos[i] is not None]
    if kind is not None:
        base = tuple(i if (i in (2, 3) or pos[i] is not None) else None for i in range(6))
        g = perm_of(kind, order)
        s["bstereo"] = [(kind, tuple(base[i] for i in g), parity)]
    return s


TWOC = [("H", "F", "Cl", "H", "F", "Cl"), ("H", "F", "Cl", "H", "F", "Br"), ("H", "H", "F", "H", "H", "F"), ("F", "Cl", "Br", "F", "Cl", "Br")]


def twocentre(cname, lig, p0, p1):
    """two bonded tetrahedral centres 0,1; ligands 2,3,4 on 0 and 5,6,7 on 1 (meso forms for symmetric patterns)."""
    s = _spec(cname)
    ligs = TWOC[lig]
    s["atoms"] = [(0, "C", {}), (1, "C", {})] + [(i + 2, ligs[i], {}) for i in range(6)]
    s["bonds"] = [(0, 1, None, {})] + [(0, i, None, {}) for i in (2, 3, 4)] + [(1, i, None, {}) for i in (5, 6, 7)]
    s["astereo"] = [("Tet", (0, 1, 2, 3, 4), p0), ("Tet", (1, 0, 5, 6, 7), p1)]
    return s


def ring4(cname, p0, p1, explicit):
    """1,3-diphosphetane-like four ring P0-C2-P1-C3 with X4 on P0, X5 on P1; fourth ligand = lone pair placeholder
    (explicit=False) or an explicit H (6 on P0, 7 on P1).  cis/trans isomers differ in one parity only and the two ring
    carbons seen from a P have equal colours, so colour refinement alone cannot tell them apart."""
    s = _spec(cname)
    s["atoms"] = [(0, "P", {}), (1, "P", {}), (2, "C", {}), (3, "C", {}), (4, "F", {}), (5, "F", {})]
    s["bonds"] = [(0, 2, None, {}), (2, 1, None, {}), (1, 3, None, {}), (3, 0, None, {}), (0, 4, None, {}), (1, 5, None, {})]
    if explicit:
        s["atoms"] += [(6, "H", {}), (7, "H", {})]
        s["bonds"] += [(0, 6, None, {}), (1, 7, None, {})]
        s["astereo"] = [("Tet", (0, 2, 3, 4, 6), p0), ("Tet", (1, 2, 3, 5, 7), p1)]
    else:
        s["astereo"] = [("Tet", (0, 2, 3, 4, None), p0), ("Tet", (1, 2, 3, 5, None), p1)]
    return s


def annulene(cname, n, lig, par):
    """(round 3) ring of n carbons 0..n-1, substituent n+i on carbon i (lig: 0 all H, 1 one F, 2 F on carbons 0 and 1, 3 F on carbons 0 and 2); every ring
    bond (par == 0) or every second ring bond (par == 1, Kekule structure) carries a PlanarBond, ring neighbours cis: one atom closes two descriptors at once"""
    s = _spec(cname)
    fl = {0: (), 1: (0,), 2: (0, 1), 3: (0, 2)}[lig]
    s["atoms"] = [(i, "C", {}) for i in range(n)] + [(n + i, "F" if i in fl else "H", {}) for i in range(n)]
    s["bonds"] = [(i, (i + 1) % n, None, {}) for i in range(n)] + [(i, n + i, None, {}) for i in range(n)]
    s["bstereo"] = [("PB", ((i - 1) % n, n + i, i, (i + 1) % n, (i + 2) % n, n + (i + 1) % n), 0) for i in range(n) if par == 0 or i % 2 == 0]
    return s


def biatrop(cname, par, mixed, zsame):
    """(round 3) two atrop axes X(0)Y(1)C2-C3(Z4)-L5-C9(Z10)-C8 X(6)Y(7) sharing the linker atom 5; the second axis carries the opposite parity (meso form), written
    either in the same notation as the first or (mixed) with the two substituents of its outer end exchanged and the parity flipped - the same arrangement"""
    s = _spec(cname)
    z = "Br" if zsame else "I"
    s["atoms"] = [(0, "F", {}), (1, "Cl", {}), (2, "C", {}), (3, "C", {}), (4, "Br", {}), (5, "O", {}),
                  (6, "F", {}), (7, "Cl", {}), (8, "C", {}), (9, "C", {}), (10, z, {})]
    s["bonds"] = [(0, 2, None, {}), (1, 2, None, {}), (2, 3, None, {}), (3, 4, None, {}), (3, 5, None, {}),
                  (6, 8, None, {}), (7, 8, None, {}), (8, 9, None, {}), (9, 10, None, {}), (9, 5, None, {})]
    second = ("Atrop", (7, 6, 8, 9, 10, 5), par) if mixed else ("Atrop", (6, 7, 8, 9, 10, 5), -par)
    s["bstereo"] = [("Atrop", (0, 1, 2, 3, 4, 5), par), second]
    return s


def sn2(variant, pr, pp, fleeting):
    """SCRG: C0 with H1 F2 Cl3; nucleophile 4 (formed bond 0-4), leaving group 5 (broken bond 0-5)."""
    s = _spec("SCRG")
    s["atoms"] = [(0, "C", {}), (1, "H", {}), (2, "F", {}), (3, "Cl", {}), (4, "O" if variant == 0 else "Br", {}), (5, "Br", {})]
    s["bonds"] = [(0, 1, None, {}), (0, 2, None, {}), (0, 3, None, {}), (0, 4, "formed", {}), (0, 5, "broken", {})]
    ch = {"broken": ("Tet", (0, 1, 2, 3, 5), pr), "formed": ("Tet", (0, 1, 2, 3, 4), pp)}
    if fleeting:
        ch["fleeting"] = ("TBP", (0, 4, 5, 1, 2, 3), fleeting)
    s["achg"] = [ch]
    return s


# ------------------------------------------------------------------------------------------------
# transformations that must preserve equality (C01 / C03)
# ------------------------------------------------------------------------------------------------
def atoms_of(spec):
    return [a for a, _, _ in spec["atoms"]]


def rename(spec, mapping):
    f = lambda x: mapping.get(x, x) if x is not None else None  # noqa: E731
    fd = lambda d: None if d is None else (d[0], tuple(f(x) for x in d[1]), d[2])  # noqa: E731
    s = dict(spec)
    s["atoms"] = [(f(a), el, dict(at)) for a, el, at in spec["atoms"]]
    s["bonds"] = [(f(a), f(b), r, dict(at)) for a, b, r, at in spec["bonds"]]
    s["astereo"] = [fd(d) for d in spec.get("astereo", [])]
    s["bstereo"] = [fd(d) for d in spec.get("bstereo", [])]
    s["achg"] = [{c: fd(d) for c, d in ch.items()} for ch in spec.get("achg", [])]
    s["bchg"] = [{c: fd(d) for c, d in ch.items()} for ch in spec.get("bchg", [])]
    return s


def reorder(spec, rng):
    """same labelled graph, different insertion order of atoms, bonds (also endpoint order), descriptors"""
    s = dict(spec)
    s["atoms"] = list(spec["atoms"])
    rng.shuffle(s["atoms"])
    s["bonds"] = [((b, a, r, at) if rng.random() < 0.5 else (a, b, r, at)) for a, b, r, at in spec["bonds"]]
    rng.shuffle(s["bonds"])
    for k in ("astereo", "bstereo", "achg", "bchg"):
        s[k] = list(spec.get(k, []))
        rng.shuffle(s[k])
    return s


def rewrite_desc(d, gi, flip):
    """symmetry-equivalent re-expression of a descriptor tuple: ordering∘g for the gi-th proper rotation, or - for chiral
    classes with flip - the gi-th improper operation together with the opposite parity."""
    if d is None:
        return None
    kind, atoms, parity = d
    proper, improper = oracle.groups(kind)
    if parity is None:
        perms = oracle.candidate_perms(kind)
        g = perms[gi % len(perms)]
        return (kind, tuple(atoms[i] for i in g), None)
    if flip and oracle.CHIRAL[kind]:
        gs = sorted(improper)
        g = gs[gi % len(gs)]
        return (kind, tuple(atoms[i] for i in g), -parity)
    gs = sorted(proper | improper) if not oracle.CHIRAL[kind] else sorted(proper)
    g = gs[gi % len(gs)]
    return (kind, tuple(atoms[i] for i in g), parity)


def rewrite(spec, gi, flip):
    s = dict(spec)
    s["astereo"] = [rewrite_desc(d, gi + n, flip) for n, d in enumerate(spec.get("astereo", []))]
    s["bstereo"] = [rewrite_desc(d, gi + n, flip) for n, d in enumerate(spec.get("bstereo", []))]
    s["achg"] = [{c: rewrite_desc(d, gi + n, flip) for c, d in ch.items()} for n, ch in enumerate(spec.get("achg", []))]
    s["bchg"] = [{c: rewrite_desc(d, gi + n, flip) for c, d in ch.items()} for n, ch in enumerate(spec.get("bchg", []))]
    return s


def renamings(atoms, seed, cap=24):
    """all bijections onto the same id set for <= 4 atoms, otherwise generators + seeded sample; plus a shift onto
    fresh ids (zero, negative, large)."""
    atoms = list(atoms)
    n = len(atoms)
    out = []
    if n <= 4:
        for p in itertools.permutations(atoms):
            out.append(dict(zip(atoms, p)))
    else:
        out.append(dict(zip(atoms, atoms[1:] + atoms[:1])))
        out.append({atoms[0]: atoms[1], atoms[1]: atoms[0]})
        out.append(dict(zip(atoms, reversed(atoms))))
        rng = random.Random(seed)
        for _ in range(cap - 3):
            p = atoms[:]
            rng.shuffle(p)
            out.append(dict(zip(atoms, p)))
    fresh = [-7, 0, 1 << 40, 5, 11, 13, 17, 19, 23]
    out.append(dict(zip(atoms, fresh)))
    out.append({a: a + 100 for a in atoms})
    return out


# ------------------------------------------------------------------------------------------------
# single-feature mutations (C02 / C16): each yields (description, mutated spec)
# ------------------------------------------------------------------------------------------------
def mutations(spec):
    atoms = atoms_of(spec)
    cname = spec["cls"]
    # one element
    for i, (a, el, at) in enumerate(spec["atoms"]):
        for new in ("C", "O", "F"):
            if new != el:
                s = dict(spec)
                s["atoms"] = list(spec["atoms"])
                s["atoms"][i] = (a, new, at)
                yield f"element of {a}: {el}->{new}", s
                break
    # one bond toggled
    have = {frozenset((a, b)) for a, b, _, _ in spec["bonds"]}
    for i, (a, b, r, at) in enumerate(spec["bonds"]):
        s = dict(spec)
        s["bonds"] = [x for j, x in enumerate(spec["bonds"]) if j != i]
        if _descs_ok(s):
            yield f"bond {a}-{b} removed", s
    n = 0
    for a, b in itertools.combinations(atoms, 2):
        if frozenset((a, b)) not in have:
            s = dict(spec)
            s["bonds"] = list(spec["bonds"]) + [(a, b, None, {})]
            yield f"bond {a}-{b} added", s
            n += 1
            if n >= 4:
                break
    # one bond role
    if gl.is_reaction(cname):
        for i, (a, b, r, at) in enumerate(spec["bonds"]):
            for new in (None, "formed", "broken", "fleeting"):
                if new != r:
                    s = dict(spec)
                    s["bonds"] = list(spec["bonds"])
                    s["bonds"][i] = (a, b, new, at)
                    if _roles_ok(s):
                        yield f"role of {a}-{b}: {r}->{new}", s
    # one descriptor inverted / re-ordered by a non-symmetry permutation / removed / class changed
    for key in ("astereo", "bstereo"):
        for i, d in enumerate(spec.get(key, [])):
            kind, at, p = d
            for nd, what in _desc_mutants(d):
                s = dict(spec)
                s[key] = list(spec[key])
                if nd is None:
                    del s[key][i]
                else:
                    s[key][i] = nd
                yield f"{key}[{i}] {what}", s
    for key in ("achg", "bchg"):
        for i, ch in enumerate(spec.get(key, [])):
            for c, d in ch.items():
                for nd, what in _desc_mutants(d):
                    s = dict(spec)
                    s[key] = [dict(x) for x in spec[key]]
                    if nd is None:
                        del s[key][i][c]
                        if not s[key][i]:
                            del s[key][i]
                    else:
                        s[key][i][c] = nd
                    yield f"{key}[{i}][{c}] {what}", s
            # slot moved
            for c in list(ch):
                for c2 in ("broken", "formed", "fleeting"):
                    if c2 not in ch:
                        s = dict(spec)
                        s[key] = [dict(x) for x in spec[key]]
                        s[key][i][c2] = s[key][i].pop(c)
                        yield f"{key}[{i}] slot {c}->{c2}", s
                        break


def _descs_ok(s):
    """bond descriptors / bond changes need their bond"""
    have = {frozenset((a, b)) for a, b, _, _ in s["bonds"]}
    for d in s.get("bstereo", []):
        if frozenset(d[1][2:4]) not in have:
            return False
    for ch in s.get("bchg", []):
        for d in ch.values():
            if frozenset(d[1][2:4]) not in have:
                return False
    return True


def _roles_ok(s):
    roles = {frozenset((a, b)): r for a, b, r, _ in s["bonds"]}
    for ch in s.get("bchg", []):
        for d in ch.values():
            if roles.get(frozenset(d[1][2:4])) is not None:
                return False
    return True


def _desc_mutants(d):
    kind, at, p = d
    if p is not None and oracle.CHIRAL[kind]:
        yield (kind, at, -p), "inverted"
    proper, improper = oracle.groups(kind)
    sym = proper | improper
    for g in oracle.candidate_perms(kind):
        if g not in sym:
            yield (kind, tuple(at[i] for i in g), p), f"re-ordered by non-symmetry {g}"
            break
    yield None, "removed"
    if kind == "Tet" and p is not None:
        yield ("SP", at, 0), "class Tet->SP"
    if kind == "SP":
        yield ("Tet", at, 1), "class SP->Tet"
    if kind == "PB" and p is not None:
        yield ("Atrop", at, 1), "class PB->Atrop"
    if kind == "Atrop":
        yield ("PB", at, 0), "class Atrop->PB"
    if p is not None and None in at:
        # placeholder moved to another ligand position
        idx = [i for i, x in enumerate(at) if x is None][0]
        lig = [i for b in oracle.BLOCKS[kind] if len(b) > 2 for i in b if at[i] is not None]
        if lig:
            j = lig[0]
            a2 = list(at)
            a2[idx], a2[j] = a2[j], a2[idx]
            yield (kind, tuple(a2), p), "placeholder moved"


# ------------------------------------------------------------------------------------------------
# carbon skeletons that 1-WL colour refinement cannot tell apart / with many automorphisms (C02, C05)
# ------------------------------------------------------------------------------------------------
def _ring(n, off=0):
    return [(off + i, off + (i + 1) % n) for i in range(n)]


SKELETONS = {
    "K4_P4": (4, [(0, 1), (0, 2), (0, 3), (1, 2), (1, 3), (2, 3)]),
    "prism": (6, _ring(3) + _ring(3, 3) + [(0, 3), (1, 4), (2, 5)]),
    "K33": (6, [(i, j) for i in (0, 1, 2) for j in (3, 4, 5)]),
    "hexagon": (6, _ring(6)),
    "two_triangles": (6, _ring(3) + _ring(3, 3)),
    "bicyclo111pentane": (5, [(0, 2), (0, 3), (0, 4), (1, 2), (1, 3), (1, 4)]),
    "cube": (8, _ring(4) + _ring(4, 4) + [(i, i + 4) for i in range(4)]),
    "decalin": (10, _ring(10) + [(0, 5)]),
    "bicyclopentyl": (10, _ring(5) + _ring(5, 5) + [(0, 5)]),
    "octagon_chord": (10, _ring(8) + [(0, 8), (4, 9)]),
}
SKELETON_NAMES = list(SKELETONS)


def skeleton(cname, idx, renum=0):
    """all-carbon skeleton; renum: index of a seeded renumbering of the atoms (0 = as listed)"""
    n, bonds = SKELETONS[SKELETON_NAMES[idx]]
    ids = list(range(n))
    if renum:
        random.Random(renum * 101 + idx).shuffle(ids)
    s = gl.empty_spec(cname)
    s["atoms"] = [(ids[i], "C", {}) for i in sorted(range(n), key=lambda i: ids[i])]
    s["bonds"] = [(ids[a], ids[b], None, {}) for a, b in bonds]
    return s


# ------------------------------------------------------------------------------------------------
# regular single-element cages: all cubic graphs on 8 vertices and their complements (4-regular), generated by back-tracking and
# de-duplicated with the brute-force isomorphism oracle; 4-regular graphs on 9 vertices for the thorough tier
# ------------------------------------------------------------------------------------------------
_REG_CACHE = {}


def regular_graphs(n, k):
    """one representative edge list per isomorphism class of k-regular graphs on n vertices (deterministic)"""
    key = (n, k)
    if key in _REG_CACHE:
        return _REG_CACHE[key]
    import json
    import os
    cache = os.path.join(os.path.dirname(os.path.dirname(os.path.dirname(os.path.abspath(__file__)))), ".work", f"regular_{n}_{k}.json")
    if os.path.exists(cache):
        try:
            _REG_CACHE[key] = [tuple(tuple(e) for e in g) for g in json.load(open(cache))]
            return _REG_CACHE[key]
        except Exception:
            pass
    from vp.lib import iso
    pairs = list(itertools.combinations(range(n), 2))
    found = []

    def snap_of(edges):
        return {"cls": "MolGraph", "atoms": {i: {"atom_type": 6} for i in range(n)}, "bonds": {e: {} for e in edges}}

    def invariant(edges):
        adj = {i: set() for i in range(n)}
        for a, b in edges:
            adj[a].add(b)
            adj[b].add(a)
        tri = sum(1 for a, b in edges for c in adj[a] & adj[b]) // 3
        sq = sum(len(adj[a] & adj[b]) * (len(adj[a] & adj[b]) - 1) // 2 for a, b in itertools.combinations(range(n), 2)) // 2
        return (tri, sq)

    deg = [0] * n
    cur = []
    seen_inv = {}

    def rec(v):
        # complete the neighbourhood of the lowest vertex with missing degree
        while v < n and deg[v] == k:
            v += 1
        if v == n:
            inv = invariant(cur)
            cands = seen_inv.setdefault(inv, [])
            s = snap_of(tuple(cur))
            for t in cands:
                if iso.isomorphic(s, t):
                    return
            cands.append(s)
            found.append(tuple(cur))
            return
        need = k - deg[v]
        options = [w for w in range(v + 1, n) if deg[w] < k and (v, w) not in cur_set]
        for combo in itertools.combinations(options, need):
            if v == 0 and combo != tuple(range(1, k + 1)):
                continue    # w.l.o.g. (relabelling) vertex 0 is bonded to 1..k
            for w in combo:
                deg[v] += 1
                deg[w] += 1
                cur.append((v, w))
                cur_set.add((v, w))
            rec(v + 1)
            for w in combo:
                deg[v] -= 1
                deg[w] -= 1
                cur.pop()
                cur_set.discard((v, w))
    cur_set = set()
    rec(0)
    _REG_CACHE[key] = found
    try:
        os.makedirs(os.path.dirname(cache), exist_ok=True)
        tmp = cache + f".{os.getpid()}"
        json.dump(found, open(tmp, "w"))
        os.replace(tmp, cache)
    except Exception:
        pass
    return found


def regular_spec(cname, n, k, idx, renum=0):
    """idx-th k-regular graph on n carbons (all isomorphism classes, connected or not); renum: seeded renumbering"""
    graphs = regular_graphs(n, k)
    edges = graphs[idx % len(graphs)]
    ids = list(range(n))
    if renum:
        random.Random(renum * 7919 + idx * 13 + n).shuffle(ids)
    s = gl.empty_spec(cname)
    s["atoms"] = [(ids[i], "C", {}) for i in sorted(range(n), key=lambda i: ids[i])]
    s["bonds"] = [(ids[a], ids[b], None, {}) for a, b in edges]
    return s
