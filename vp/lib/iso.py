"""Brute-force isomorphism oracle over snapshots (public views only; DESIGN.md §4).

An isomorphism is a bijection of atoms preserving: element types, bonds, the reaction role of every bond,
every stereodescriptor up to its spatial symmetry (vp/lib/oracle.py; unspecified parity = wildcard over the same
atoms) and every stereo change.  Never calls __eq__/vf2pp of the library under test."""
from __future__ import annotations

import itertools

from vp.lib import oracle


def _role(attrs):
    return attrs.get("reaction")


def _map_desc(d, f):
    return (d[0], tuple(None if x is None else f.get(x, ("?", x)) for x in d[1]), d[2])


def all_isomorphisms(sa, sb, stereo=True, changes=True, labels=None, roles=True):
    """Yield every bijection atom(A)->atom(B) (dict) that is structure preserving.
    `labels`: optional pair of dicts atom->label replacing the element type as vertex label."""
    A = list(sa["atoms"])
    B = list(sb["atoms"])
    if len(A) != len(B):
        return
    la = {a: (labels[0][a] if labels else sa["atoms"][a]["atom_type"]) for a in A}
    lb = {b: (labels[1][b] if labels else sb["atoms"][b]["atom_type"]) for b in B}
    if sorted(map(repr, la.values())) != sorted(map(repr, lb.values())):
        return
    ba = {frozenset(k): (_role(v) if roles else None) for k, v in sa["bonds"].items()}
    bb = {frozenset(k): (_role(v) if roles else None) for k, v in sb["bonds"].items()}
    if len(ba) != len(bb):
        return
    # candidates per atom by label and degree
    dega = {a: sum(1 for k in ba if a in k) for a in A}
    degb = {b: sum(1 for k in bb if b in k) for b in B}
    cand = {a: [b for b in B if lb[b] == la[a] and degb[b] == dega[a]] for a in A}
    use_stereo = stereo and ("astereo" in sa or "astereo" in sb)
    use_changes = changes and ("achg" in sa or "achg" in sb)

    def ok_full(f):
        for k, r in ba.items():
            k2 = frozenset(f[x] for x in k)
            if k2 not in bb or bb[k2] != r:
                return False
        if use_stereo:
            if not _stereo_ok(sa.get("astereo", {}), sb.get("astereo", {}), f, lambda a: f[a]):
                return False
            if not _stereo_ok(sa.get("bstereo", {}), sb.get("bstereo", {}), f, lambda k: tuple(sorted((f[x] for x in k), key=repr))):
                return False
        if use_changes:
            if not _changes_ok(sa.get("achg", {}), sb.get("achg", {}), f, lambda a: f[a]):
                return False
            if not _changes_ok(sa.get("bchg", {}), sb.get("bchg", {}), f, lambda k: tuple(sorted((f[x] for x in k), key=repr))):
                return False
        return True

    def rec(i, f, used):
        if i == len(A):
            if ok_full(f):
                yield dict(f)
            return
        a = A[i]
        for b in cand[a]:
            if b in used:
                continue
            # adjacency pruning
            good = True
            for a2, b2 in f.items():
                ka, kb = frozenset((a, a2)), frozenset((b, b2))
                if (ka in ba) != (kb in bb) or (ka in ba and ba[ka] != bb[kb]):
                    good = False
                    break
            if not good:
                continue
            f[a] = b
            used.add(b)
            yield from rec(i + 1, f, used)
            del f[a]
            used.discard(b)

    yield from rec(0, {}, set())


def _stereo_ok(da, db, f, fkey):
    if len(da) != len(db):
        return False
    for k, d in da.items():
        k2 = fkey(k)
        if k2 not in db:
            return False
        if not oracle.desc_equal(_map_desc(d, f), db[k2]):
            return False
    return True


def _changes_ok(ca, cb, f, fkey):
    ca = {k: v for k, v in ca.items() if v}
    cb = {k: v for k, v in cb.items() if v}
    if len(ca) != len(cb):
        return False
    for k, cd in ca.items():
        k2 = fkey(k)
        if k2 not in cb:
            return False
        cd2 = cb[k2]
        if set(cd) != set(cd2):
            return False
        for c, d in cd.items():
            if not oracle.desc_equal(_map_desc(d, f), cd2[c]):
                return False
    return True


def isomorphic(sa, sb, **kw):
    if sa["cls"] != sb["cls"]:
        return False
    for _ in all_isomorphisms(sa, sb, **kw):
        return True
    return False


def mirror_snap(s):
    """Oracle-built mirror image of a snapshot (all chiral descriptors inverted), without enantiomer()."""
    t = {k: (dict(v) if isinstance(v, dict) else v) for k, v in s.items()}
    if "astereo" in s:
        t["astereo"] = {k: oracle.mirror(d) for k, d in s["astereo"].items()}
        t["bstereo"] = {k: oracle.mirror(d) for k, d in s["bstereo"].items()}
    if "achg" in s:
        t["achg"] = {k: {c: oracle.mirror(d) for c, d in cd.items()} for k, cd in s["achg"].items()}
        t["bchg"] = {k: {c: oracle.mirror(d) for c, d in cd.items()} for k, cd in s["bchg"].items()}
    return t


def fully_specified(s):
    ds = list(s.get("astereo", {}).values()) + list(s.get("bstereo", {}).values())
    for cd in list(s.get("achg", {}).values()) + list(s.get("bchg", {}).values()):
        ds += list(cd.values())
    return all(d[2] is not None for d in ds)


def _desc_valid(d, bonds):
    kind, atoms, _ = d
    if kind in ("PB", "Atrop"):
        c1, c2 = atoms[2], atoms[3]
        if frozenset((c1, c2)) not in bonds:
            return False
        for x in atoms[0:2]:
            if x is not None and frozenset((x, c1)) not in bonds:
                return False
        for x in atoms[4:6]:
            if x is not None and frozenset((x, c2)) not in bonds:
                return False
        return True
    c = atoms[0]
    return all(x is None or frozenset((c, x)) in bonds for x in atoms[1:])


def stereo_valid(s):
    """Every descriptor lists only atoms that are bonded to its centre in the structure it belongs to (reactant /
    product / transition structure for reaction graphs).  Bound of C02/C16: on stereo-invalid decorations a bond of a
    centre that carries a descriptor is invisible to colour refinement (known finding, DESIGN.md §7)."""
    role = {frozenset(k): v.get("reaction") for k, v in s["bonds"].items()}
    structs = {
        "broken": {b for b, r in role.items() if r in (None, "Change.BROKEN")},
        "formed": {b for b, r in role.items() if r in (None, "Change.FORMED")},
        "fleeting": set(role),
    }
    static = list(s.get("astereo", {}).values()) + list(s.get("bstereo", {}).values())
    for slot, bonds in structs.items():
        for d in static:
            if not _desc_valid(d, bonds):
                return False
        for cd in list(s.get("achg", {}).values()) + list(s.get("bchg", {}).values()):
            if slot in cd and not _desc_valid(cd[slot], bonds):
                return False
    return True
