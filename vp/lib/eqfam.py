"""Graph families for the equality / hash / isomorphism properties (C01, C02, C03, C05, C06, C16):
selector tables + decoders to specs.  A family is addressed as (name, class)."""
from __future__ import annotations

from vp.lib import fam, gl, oracle, tmpl

P3 = [1, -1, None]


def _par(kind, i):
    """parity choice i in 0..2 for a descriptor kind: +, -, unspecified (achiral: 0, 0, unspecified)"""
    if oracle.CHIRAL[kind]:
        return P3[i]
    return [0, 0, None][i]


FAMILIES = {}


def family(name, classes):
    def deco(f):
        FAMILIES[name] = {"classes": classes, "make": f}
        return f
    return deco


# --- small graphs over U_3 / U_4 (all classes) ------------------------------------------------------
def small_params(cname, k):
    return fam.sel_params(k, gl.is_stereo(cname), gl.is_reaction(cname), cname == "SCRG")


def small_spec(cname, k, kw):
    return fam.decode(cname, k, kw)


# --- templates ----------------------------------------------------------------------------------------
def _wrap_change(spec, chg):
    """SCRG variants of a static-stereo template: 0 static; 1 every descriptor as a FORMED change; 2 BROKEN = descriptor and
    FORMED = its mirror image / re-ordering; 3 FLEETING only."""
    if spec["cls"] != "SCRG" or chg == 0:
        return spec
    s = dict(spec)
    a, b = spec.get("astereo", []), spec.get("bstereo", [])
    s["astereo"], s["bstereo"] = [], []

    def ch(d):
        if chg == 1:
            return {"formed": d}
        if chg == 2:
            return {"broken": d, "formed": oracle.mirror(d) if oracle.CHIRAL[d[0]] and d[2] is not None else d}
        return {"fleeting": d}
    s["achg"] = list(spec.get("achg", [])) + [ch(d) for d in a]
    s["bchg"] = list(spec.get("bchg", [])) + [ch(d) for d in b]
    return s


TEMPLATES = {
    # name: (params, pre, maker(cname, kw) -> spec)
    "star4": ({"lig": (0, 5), "kind": (0, 3), "order": (0, 24), "par": (0, 3), "chg": (0, 4)},
              ["kind > 0 or (order == 0 and par == 0 and chg == 0)"],
              lambda c, kw: _wrap_change(tmpl.star(c, 4, kw["lig"], [None, "Tet", "SP"][kw["kind"]], kw["order"],
                                                   _par([None, "Tet", "SP"][kw["kind"]] or "Tet", kw["par"])), kw["chg"])),
    "star5": ({"lig": (0, 4), "order": (0, 120), "par": (0, 3), "chg": (0, 4)}, [],
              lambda c, kw: _wrap_change(tmpl.star(c, 5, kw["lig"], "TBP", kw["order"], _par("TBP", kw["par"])), kw["chg"])),
    "star6": ({"lig": (0, 5), "order": (0, 720), "par": (0, 3), "chg": (0, 4)}, [],
              lambda c, kw: _wrap_change(tmpl.star(c, 6, kw["lig"], "Oct", kw["order"], _par("Oct", kw["par"])), kw["chg"])),
    # centre of degree k without descriptor (colour refinement enumerates every ordering of its neighbours)
    "bare": ({"k": (1, 9), "lig": (0, 3)}, [],
             lambda c, kw: tmpl.star(c, kw["k"], kw["lig"], None, 0, None)),
    "lonepair": ({"lig": (0, 5), "order": (0, 24), "par": (0, 3), "chg": (0, 4)}, [],
                 lambda c, kw: _wrap_change(tmpl.lonepair(c, kw["lig"], kw["order"], _par("Tet", kw["par"])), kw["chg"])),
    "dbond": ({"sub": (0, 6), "kind": (0, 2), "order": (0, 48), "par": (0, 3), "chg": (0, 4)}, [],
              lambda c, kw: _wrap_change(tmpl.dbond(c, kw["sub"], ["PB", "Atrop"][kw["kind"]], kw["order"],
                                                    _par(["PB", "Atrop"][kw["kind"]], kw["par"])), kw["chg"])),
    "twocentre": ({"lig": (0, 4), "par": (0, 3), "par2": (0, 3), "chg": (0, 4)}, [],
                  lambda c, kw: _wrap_change(tmpl.twocentre(c, kw["lig"], P3[kw["par"]], P3[kw["par2"]]), kw["chg"])),
    "ring4": ({"par": (0, 2), "par2": (0, 2), "explicit": "bool", "chg": (0, 4)}, [],
              lambda c, kw: _wrap_change(tmpl.ring4(c, P3[kw["par"]], P3[kw["par2"]], kw["explicit"]), kw["chg"])),
    "annulene": ({"n2": (2, 4), "lig": (0, 4), "par": (0, 2)}, [],
                 lambda c, kw: tmpl.annulene(c, 2 * kw["n2"], kw["lig"], kw["par"])),
    "sn2": ({"variant": (0, 2), "par": (0, 2), "par2": (0, 2), "fl": (0, 3)}, [],
            lambda c, kw: tmpl.sn2(kw["variant"], P3[kw["par"]], P3[kw["par2"]], [0, 1, -1][kw["fl"]])),
}
TEMPLATE_CLASSES = {"sn2": ["SCRG"], "annulene": ["SMG"]}


def template_units(names, classes=("SMG", "SCRG")):
    """-> list of (family name, cname, params, pre)"""
    out = []
    for n in names:
        params, pre, _ = TEMPLATES[n]
        for c in TEMPLATE_CLASSES.get(n, classes):
            p = dict(params)
            pr = list(pre)
            if c != "SCRG" and "chg" in p:
                pr.append("chg == 0")
            out.append((n, c, p, pr))
    return out


def template_spec(name, cname, kw):
    return TEMPLATES[name][2](cname, kw)


def fully_specified_spec(spec):
    ds = list(spec.get("astereo", [])) + list(spec.get("bstereo", []))
    for ch in list(spec.get("achg", [])) + list(spec.get("bchg", [])):
        ds += list(ch.values())
    return all(d[2] is not None for d in ds)
