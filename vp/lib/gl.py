"""Graph-level harness library: specs, builders through the public API, snapshots of every public
view, internal-coherence check and the plain reference model (DESIGN.md §4).

Nothing here is used by the library under test; the real classes are imported from /repo/src.
"""
from __future__ import annotations

import itertools
from collections import deque

from stereomolgraph.graphs.crg import Change, CondensedReactionGraph
from stereomolgraph.graphs.mg import MolGraph
from stereomolgraph.graphs.scrg import StereoCondensedReactionGraph
from stereomolgraph.graphs.smg import StereoMolGraph
from stereomolgraph.stereodescriptors import (
    AtropBond,
    Octahedral,
    PlanarBond,
    SquarePlanar,
    Tetrahedral,
    TrigonalBipyramidal,
)

CLS = {"MG": MolGraph, "SMG": StereoMolGraph, "CRG": CondensedReactionGraph, "SCRG": StereoCondensedReactionGraph}
CLS_NAMES = ["MG", "SMG", "CRG", "SCRG"]
DESC = {"Tet": Tetrahedral, "SP": SquarePlanar, "TBP": TrigonalBipyramidal, "Oct": Octahedral,
        "PB": PlanarBond, "Atrop": AtropBond}
DESC_NAME = {v: k for k, v in DESC.items()}
ATOM_DESC = ("Tet", "SP", "TBP", "Oct")
BOND_DESC = ("PB", "Atrop")
CHIRAL = {"Tet": True, "SP": False, "TBP": True, "Oct": True, "PB": False, "Atrop": True}
ARITY = {"Tet": 5, "SP": 5, "TBP": 6, "Oct": 7, "PB": 6, "Atrop": 6}
CHANGES = {"broken": Change.BROKEN, "formed": Change.FORMED, "fleeting": Change.FLEETING}
CHANGE_NAME = {v: k for k, v in CHANGES.items()}
ELEMENTS = ["H", "C", "O", "F", "Cl", "N", "Br", "S"]


def is_stereo(cname):
    return cname in ("SMG", "SCRG")


def is_reaction(cname):
    return cname in ("CRG", "SCRG")


def mk_desc(d):
    """d = (kind, atoms, parity) -> real descriptor object"""
    if d is None:
        return None
    k, atoms, parity = d
    return DESC[k](tuple(atoms), parity)


def desc_tuple(s):
    """real descriptor -> (kind, atoms, parity); exact representation"""
    if s is None:
        return None
    return (DESC_NAME[type(s)], tuple(s.atoms), s.parity)


# ------------------------------------------------------------------------------------------------
# spec -> real graph through the public API
# ------------------------------------------------------------------------------------------------
def empty_spec(cname):
    return {"cls": cname, "atoms": [], "bonds": [], "astereo": [], "bstereo": [], "achg": [], "bchg": []}


def build(spec, changes_first=False):
    """atoms: [(id, element, attrs)], bonds: [(a, b, role|None, attrs)], astereo/bstereo: [desc],
    achg/bchg: [{"broken": desc, ...}] -- all through public mutators, in list order (changes_first: stereo changes are set before
    the static descriptors)."""
    cname = spec["cls"]
    g = CLS[cname]()
    for a, el, attrs in spec["atoms"]:
        g.add_atom(a, el, **attrs)
    for a, b, role, attrs in spec["bonds"]:
        if role is None:
            g.add_bond(a, b, **attrs)
        elif role == "formed":
            g.add_formed_bond(a, b, **attrs)
        elif role == "broken":
            g.add_broken_bond(a, b, **attrs)
        elif role == "fleeting":
            g.add_fleeting_bond(a, b, **attrs)
        else:
            raise AssertionError(role)
    def statics():
        if is_stereo(cname):
            for d in spec.get("astereo", []):
                g.set_atom_stereo(mk_desc(d))
            for d in spec.get("bstereo", []):
                g.set_bond_stereo(mk_desc(d))

    def changes():
        if cname == "SCRG":
            for ch in spec.get("achg", []):
                g.set_atom_stereo_change(**{k: mk_desc(v) for k, v in ch.items() if v is not None})
            for ch in spec.get("bchg", []):
                g.set_bond_stereo_change(**{k: mk_desc(v) for k, v in ch.items() if v is not None})
    for step in ((changes, statics) if changes_first else (statics, changes)):
        step()
    return g


# ------------------------------------------------------------------------------------------------
# snapshot of all public views
# ------------------------------------------------------------------------------------------------
def _norm_attrs(d):
    out = {}
    for k, v in d.items():
        if isinstance(v, Change):
            v = "Change." + v.name
        out[k] = v
    return out


def snap(g, exact=True):
    """Normalised content of every public view (see DESIGN.md §4 for the normalisation rules)."""
    atoms = list(g.atoms)
    s = {"cls": type(g).__name__}
    awa = g.atoms_with_attributes
    s["atoms"] = {a: _norm_attrs(awa[a]) for a in atoms}
    bwa = g.bonds_with_attributes
    s["bonds"] = {tuple(sorted(b, key=repr)): _norm_attrs(bwa[b]) for b in g.bonds}
    nb = g.neighbors
    s["nbrs"] = {a: set(nb[a]) if a in nb else set() for a in atoms}
    s["nbr_extra_keys"] = sorted((k for k in nb if k not in awa), key=repr)
    if isinstance(g, StereoMolGraph):
        s["astereo"] = {a: desc_tuple(d) for a, d in g.atom_stereo.items()}
        s["bstereo"] = {tuple(sorted(b, key=repr)): desc_tuple(d) for b, d in g.bond_stereo.items()}
    if isinstance(g, StereoCondensedReactionGraph):
        s["achg"] = {a: {CHANGE_NAME[c]: desc_tuple(d) for c, d in cd.items() if d is not None}
                     for a, cd in g.atom_stereo_changes.items()}
        s["achg"] = {a: cd for a, cd in s["achg"].items() if cd}
        s["bchg"] = {tuple(sorted(b, key=repr)): {CHANGE_NAME[c]: desc_tuple(d) for c, d in cd.items() if d is not None}
                     for b, cd in g.bond_stereo_changes.items()}
        s["bchg"] = {b: cd for b, cd in s["bchg"].items() if cd}
        # entries without any descriptor are not stereo changes; they are normalised away above but their keys stay visible here, so that a lookup or a
        # rejected request that inserts an empty entry into the public view is seen (the key is only present when there is such an entry)
        ea = sorted((a for a, cd in g.atom_stereo_changes.items() if not any(d is not None for d in cd.values())), key=repr)
        eb = sorted((tuple(sorted(b, key=repr)) for b, cd in g.bond_stereo_changes.items() if not any(d is not None for d in cd.values())), key=repr)
        if ea:
            s["achg_empty_entries"] = ea
        if eb:
            s["bchg_empty_entries"] = eb
    return s


def snap_sets(s):
    """Order-free form of a snapshot (atom order is not predicted by the model)."""
    t = dict(s)
    return t


def diff(s1, s2):
    """None if equal, else a short description of the first difference."""
    keys = sorted(set(s1) | set(s2))
    for k in keys:
        if s1.get(k) != s2.get(k):
            return f"view '{k}' differs: {s1.get(k)!r} vs {s2.get(k)!r}"
    return None


def coherent(g):
    """Internal agreement of all public views of g with each other; None if coherent."""
    atoms = list(g.atoms)
    aset = set(atoms)
    if len(aset) != len(atoms):
        return "duplicate atoms"
    if len(g) != len(atoms) or g.n_atoms != len(atoms):
        return "len/n_atoms disagree with atoms"
    awa = g.atoms_with_attributes
    if list(awa.keys()) != atoms:
        return "atoms_with_attributes keys != atoms"
    for a in atoms:
        if "atom_type" not in awa[a]:
            return f"atom {a} has no atom_type"
    try:
        types = g.atom_types
    except Exception as e:
        return f"atom_types raises {type(e).__name__}: {e}"
    if tuple(types) != tuple(awa[a]["atom_type"] for a in atoms):
        return "atom_types disagree with attributes"
    for a in atoms:
        if g.get_atom_type(a) != awa[a]["atom_type"] or g.get_atom_attribute(a, "atom_type") != awa[a]["atom_type"]:
            return "get_atom_type disagrees"
        if not g.has_atom(a):
            return "has_atom false for an atom"
    bonds = list(g.bonds)
    bwa = g.bonds_with_attributes
    if list(bwa.keys()) != bonds:
        return "bonds_with_attributes keys != bonds"
    for b in bonds:
        if not isinstance(b, frozenset) or len(b) != 2:
            return f"bond {set(b)} does not have two endpoints"
        if not b <= aset:
            return f"bond {set(b)} has an endpoint that is not an atom"
    bset = set(bonds)
    nb = g.neighbors
    for k in nb:
        if k not in aset:
            return f"neighbors has key {k!r} which is not an atom"
    for a in atoms:
        exp = {next(iter(b - {a})) for b in bset if a in b}
        got = set(nb[a]) if a in nb else set()
        if got != exp:
            return f"neighbors[{a}]={got} but bonds give {exp}"
        bt = g.bonded_to(a)
        if set(bt) != exp:
            return f"bonded_to({a})={set(bt)} but bonds give {exp}"
    for a, b in itertools.combinations(atoms, 2):
        if g.has_bond(a, b) != (frozenset((a, b)) in bset) or g.has_bond(b, a) != (frozenset((a, b)) in bset):
            return f"has_bond({a},{b}) disagrees with bonds"
    m = g.connectivity_matrix()
    n = len(atoms)
    if m.shape != (n, n):
        return "connectivity_matrix has wrong shape"
    for i, a in enumerate(atoms):
        for j, b in enumerate(atoms):
            exp = 1 if (i != j and frozenset((a, b)) in bset) else 0
            if int(m[i][j]) != exp:
                return f"connectivity_matrix[{i}][{j}]={int(m[i][j])} expected {exp}"
    comps = g.connected_components()
    exp_comps = _components(aset, bset)
    if sorted(map(sorted, comps)) != sorted(map(sorted, exp_comps)):
        return f"connected_components {comps} expected {exp_comps}"
    for a in atoms:
        c = g.node_connected_component(a)
        if set(c) != next(x for x in exp_comps if a in x):
            return f"node_connected_component({a}) wrong"
    if isinstance(g, StereoMolGraph):
        for a, d in g.atom_stereo.items():
            if a not in aset:
                return f"atom_stereo key {a} is not an atom"
            if d.central_atom != a:
                return f"atom_stereo[{a}] is centred on {d.central_atom}"
            if g.get_atom_stereo(a) != d:
                return "get_atom_stereo disagrees"
        st = g.stereo
        if set(st.keys()) != set(g.atom_stereo.keys()) | set(g.bond_stereo.keys()):
            return "stereo view is not the union of atom_stereo and bond_stereo"
        for b, d in g.bond_stereo.items():
            if frozenset(d.bond) != b:
                return f"bond_stereo[{set(b)}] is centred on {set(d.bond)}"
    if isinstance(g, CondensedReactionGraph):
        roles = {"formed": g.get_formed_bonds(), "broken": g.get_broken_bonds(), "fleeting": g.get_fleeting_bonds()}
        for b in bonds:
            r = bwa[b].get("reaction")
            for nm, ch in CHANGES.items():
                if (b in roles[nm]) != (r == ch):
                    return f"get_{nm}_bonds disagrees with bond attribute for {set(b)}"
        for nm in roles:
            if not roles[nm] <= bset:
                return f"get_{nm}_bonds returns a non-bond"
    return None


def _components(aset, bset):
    adj = {a: set() for a in aset}
    for b in bset:
        x, y = tuple(b)
        adj[x].add(y)
        adj[y].add(x)
    seen = set()
    out = []
    for a in aset:
        if a in seen:
            continue
        comp = {a}
        dq = deque([a])
        while dq:
            x = dq.popleft()
            for y in adj[x]:
                if y not in comp:
                    comp.add(y)
                    dq.append(y)
        seen |= comp
        out.append(comp)
    return out


# ------------------------------------------------------------------------------------------------
# reference model
# ------------------------------------------------------------------------------------------------
class Reject(Exception):
    """The model refuses the request (the real object must raise and stay unchanged)."""


class Either(Exception):
    """Outcome not fixed by the property: real object may raise (unchanged) or apply `effect`."""


def _valid_element(t):
    from stereomolgraph.periodic_table import PERIODIC_TABLE
    try:
        return t in PERIODIC_TABLE
    except TypeError:
        return False


def _element(t):
    from stereomolgraph.periodic_table import PERIODIC_TABLE
    return PERIODIC_TABLE[t]


class Model:
    """Plain sets/dicts with the obvious semantics of every public mutator."""

    def __init__(self, cname):
        self.cname = cname
        self.atoms = {}
        self.bonds = {}
        self.astereo = {}
        self.bstereo = {}
        self.achg = {}
        self.bchg = {}

    @classmethod
    def from_snap(cls, s, cname):
        m = cls(cname)
        m.atoms = {a: dict(d) for a, d in s["atoms"].items()}
        m.bonds = {frozenset(b): dict(d) for b, d in s["bonds"].items()}
        m.astereo = dict(s.get("astereo", {}))
        m.bstereo = {frozenset(b): d for b, d in s.get("bstereo", {}).items()}
        m.achg = {a: dict(d) for a, d in s.get("achg", {}).items()}
        m.bchg = {frozenset(b): dict(d) for b, d in s.get("bchg", {}).items()}
        return m

    def snap(self):
        s = {"cls": CLS[self.cname].__name__}
        s["atoms"] = {a: dict(d) for a, d in self.atoms.items()}
        s["bonds"] = {tuple(sorted(b, key=repr)): dict(d) for b, d in self.bonds.items()}
        s["nbrs"] = {a: {next(iter(b - {a})) for b in self.bonds if a in b} for a in self.atoms}
        s["nbr_extra_keys"] = []
        if is_stereo(self.cname):
            s["astereo"] = dict(self.astereo)
            s["bstereo"] = {tuple(sorted(b, key=repr)): d for b, d in self.bstereo.items()}
        if self.cname == "SCRG":
            s["achg"] = {a: dict(d) for a, d in self.achg.items() if d}
            s["bchg"] = {tuple(sorted(b, key=repr)): dict(d) for b, d in self.bchg.items() if d}
        return s

    # --- mutators -------------------------------------------------------------------------------
    def add_atom(self, a, t, **attr):
        if not _valid_element(t):
            raise Reject("atom type is not an element")
        self.atoms[a] = {"atom_type": _element(t), **attr}

    def remove_atom(self, a):
        if a not in self.atoms:
            raise Reject("unknown atom")
        del self.atoms[a]
        for b in [b for b in self.bonds if a in b]:
            del self.bonds[b]
        for k in [k for k, d in self.astereo.items() if a in d[1]]:
            del self.astereo[k]
        for k in [k for k, d in self.bstereo.items() if a in d[1]]:
            del self.bstereo[k]
        # descriptors inside stereo changes are descriptors, too ("removes ... every descriptor that mentions it"): the slots that mention the atom go,
        # an entry without slots goes
        for table in (getattr(self, "achg", None), getattr(self, "bchg", None)):
            if table is None:
                continue
            for k in list(table):
                for c in [c for c, d in table[k].items() if d is not None and a in d[1]]:
                    del table[k][c]
                if not table[k]:
                    del table[k]

    def set_atom_attribute(self, a, attr, v):
        if a not in self.atoms:
            raise Reject("unknown atom")
        if attr == "atom_type":
            if not _valid_element(v):
                raise Reject("not an element")
            v = _element(v)
        self.atoms[a][attr] = v

    def delete_atom_attribute(self, a, attr):
        if a not in self.atoms:
            raise Reject("unknown atom")
        if attr == "atom_type":
            raise Reject("element attribute cannot be deleted")
        if attr not in self.atoms[a]:
            raise Either()
        del self.atoms[a][attr]

    def add_bond(self, a, b, **attr):
        if a not in self.atoms or b not in self.atoms:
            raise Reject("unknown atom")
        if a == b:
            raise Reject("self bond")
        if is_reaction(self.cname) and "reaction" in attr and not isinstance(attr["reaction"], Change):
            raise Reject("reaction label of the wrong type")
        self.bonds[frozenset((a, b))] = _norm_attrs(attr)

    def add_role_bond(self, role, a, b):
        if a not in self.atoms or b not in self.atoms:
            raise Reject("unknown atom")
        if a == b:
            raise Reject("self bond")
        self.bonds[frozenset((a, b))] = {"reaction": "Change." + CHANGES[role].name}

    def bonds_from_matrix(self, mat, include_bond_order):
        """bonds_from_bond_order_matrix: entries above 0.5 name bonds between the identifiers i, j; the request is ill-formed when the matrix does
        not have the shape of the graph, names an identifier that is not an atom or bonds an atom to itself (diagonal)"""
        n = len(self.atoms)
        if mat.shape != (n, n):
            raise Reject("matrix has the wrong shape")
        pairs = [(int(i), int(j)) for i, j in zip(*(mat > 0.5).nonzero())]
        for i, j in pairs:
            if i not in self.atoms or j not in self.atoms:
                raise Reject("unknown atom")
            if i == j:
                raise Reject("self bond")
        for i, j in pairs:
            self.bonds[frozenset((i, j))] = {"bond_order": mat[i, j]} if include_bond_order else {}

    def remove_bond(self, a, b):
        k = frozenset((a, b))
        if k not in self.bonds or a == b:
            raise Reject("unknown bond")
        del self.bonds[k]

    def set_bond_attribute(self, a, b, attr, v):
        k = frozenset((a, b))
        if k not in self.bonds or a == b:
            raise Reject("unknown bond")
        if is_reaction(self.cname) and attr == "reaction":
            if not isinstance(v, Change):
                raise Reject("reaction label of the wrong type")
            v = "Change." + v.name
        self.bonds[k][attr] = v

    def delete_bond_attribute(self, a, b, attr):
        k = frozenset((a, b))
        if k not in self.bonds or a == b:
            raise Reject("unknown bond")
        if attr not in self.bonds[k]:
            raise Either()
        del self.bonds[k][attr]

    def set_atom_stereo(self, d):
        c = d[1][0]
        if c not in self.atoms:
            raise Reject("descriptor centred on unknown atom")
        self.astereo[c] = d

    def delete_atom_stereo(self, a):
        if a not in self.astereo:
            raise Either()
        del self.astereo[a]

    def set_bond_stereo(self, d):
        k = frozenset(d[1][2:4])
        if k not in self.bonds:
            raise Reject("descriptor centred on unknown bond")
        self.bstereo[k] = d

    def delete_bond_stereo(self, b):
        k = frozenset(b)
        if k not in self.bstereo:
            raise Either()
        del self.bstereo[k]

    def set_atom_stereo_change(self, **kw):
        ds = {k: v for k, v in kw.items() if v is not None}
        centres = {v[1][0] for v in ds.values()}
        if len(centres) == 0:
            raise Either()
        if len(centres) > 1:
            raise Reject("several centres at once")
        c = centres.pop()
        if c not in self.atoms:
            raise Reject("stereo change centred on unknown atom")
        self.achg[c] = ds

    def set_bond_stereo_change(self, **kw):
        ds = {k: v for k, v in kw.items() if v is not None}
        centres = {frozenset(v[1][2:4]) for v in ds.values()}
        if len(centres) == 0:
            raise Either()
        if len(centres) > 1:
            raise Reject("several centres at once")
        c = centres.pop()
        if c not in self.bonds:
            raise Reject("stereo change centred on unknown bond")
        self.bchg[c] = ds

    def delete_atom_stereo_change(self, a, change=None):
        if a not in self.atoms:
            raise Reject("names an unknown atom")
        if a not in self.achg or not self.achg[a]:
            raise Either()
        if change is None:
            del self.achg[a]
        else:
            if change not in self.achg[a]:
                raise Either()
            del self.achg[a][change]
            if not self.achg[a]:
                del self.achg[a]

    def delete_bond_stereo_change(self, b, change=None):
        k = frozenset(b)
        if k not in self.bonds:
            raise Reject("names an unknown bond")
        if k not in self.bchg or not self.bchg[k]:
            raise Either()
        if change is None:
            del self.bchg[k]
        else:
            if change not in self.bchg[k]:
                raise Either()
            del self.bchg[k][change]
            if not self.bchg[k]:
                del self.bchg[k]

    def relabel(self, mapping):
        f = lambda x: mapping.get(x, x) if x is not None else None  # noqa: E731
        fd = lambda d: (d[0], tuple(f(x) for x in d[1]), d[2])  # noqa: E731
        self.atoms = {f(a): d for a, d in self.atoms.items()}
        self.bonds = {frozenset(f(x) for x in b): d for b, d in self.bonds.items()}
        self.astereo = {f(a): fd(d) for a, d in self.astereo.items()}
        self.bstereo = {frozenset(f(x) for x in b): fd(d) for b, d in self.bstereo.items()}
        self.achg = {f(a): {c: fd(d) for c, d in cd.items()} for a, cd in self.achg.items()}
        self.bchg = {frozenset(f(x) for x in b): {c: fd(d) for c, d in cd.items()} for b, cd in self.bchg.items()}


def model_of(g):
    cname = {v.__name__: k for k, v in CLS.items()}[type(g).__name__]
    return Model.from_snap(snap(g), cname)


def purge_changes_variants(ms, a):
    """SCRG.remove_atom: the property does not say whether descriptors inside stereo changes that
    mention the removed atom are purged; both outcomes are accepted (DESIGN.md §5 C09)."""
    s2 = {k: (dict(v) if isinstance(v, dict) else v) for k, v in ms.items()}
    if "achg" in s2:
        s2["achg"] = {k: {c: d for c, d in cd.items() if a not in d[1]} for k, cd in ms["achg"].items() if k != a}
        s2["achg"] = {k: cd for k, cd in s2["achg"].items() if cd}
        s2["bchg"] = {k: {c: d for c, d in cd.items() if a not in d[1]} for k, cd in ms["bchg"].items() if a not in k}
        s2["bchg"] = {k: cd for k, cd in s2["bchg"].items() if cd}
    return s2


def model_from_spec(spec):
    """The reference model after the same construction recipe as `build`."""
    m = Model(spec["cls"])
    for a, el, attrs in spec["atoms"]:
        m.add_atom(a, el, **attrs)
    for a, b, role, attrs in spec["bonds"]:
        if role is None:
            m.add_bond(a, b, **attrs)
        else:
            m.add_role_bond(role, a, b)
            m.bonds[frozenset((a, b))].update(attrs)
    if is_stereo(spec["cls"]):
        for d in spec.get("astereo", []):
            m.set_atom_stereo(d)
        for d in spec.get("bstereo", []):
            m.set_bond_stereo(d)
    if spec["cls"] == "SCRG":
        for ch in spec.get("achg", []):
            m.set_atom_stereo_change(**ch)
        for ch in spec.get("bchg", []):
            m.set_bond_stereo_change(**ch)
    return m
