"""Template geometries (idealised figures with real bond lengths), rigid motions that are exactly representable, noise patterns."""
from __future__ import annotations

import itertools

import numpy as np

from vp.lib import oracle

# 24 proper rotations of the cube as signed permutation matrices (exact in floating point)
def cube_rotations():
    mats = []
    for perm in itertools.permutations(range(3)):
        for signs in itertools.product((1, -1), repeat=3):
            m = np.zeros((3, 3))
            for i, (p, s) in enumerate(zip(perm, signs)):
                m[i, p] = s
            if round(np.linalg.det(m)) == 1:
                mats.append(m)
    return mats


CUBE = cube_rotations()
MIRROR = np.diag([1.0, 1.0, -1.0])
TRANSLATIONS = [np.zeros(3), np.array([3.0, -2.0, 0.5]), np.array([-100.0, 64.0, 32.0])]

# centre element, ligand elements (pairwise distinct), figure kind, bond length
TEMPLATES = {
    "Tet": ("C", ["H", "F", "Cl", "Br"], "Tet", 1.1),
    "SP": ("Pt", ["H", "F", "Cl", "Br"], "SP", 2.0),
    "TBP": ("P", ["H", "F", "Cl", "Br", "I"], "TBP", 1.6),
    "Oct": ("S", ["H", "F", "Cl", "Br", "I", "O"], "Oct", 1.6),
}
# covalent radii make all centre-ligand pairs bonded and no ligand-ligand pair bonded at these lengths? checked at run time


def star_coords(kind, placement, scale=None):
    """centre at origin; ligand j (1-based atom id) sits on figure vertex placement[j-1] (1-based position)"""
    fig = oracle.FIGURES[kind]
    cel, ligs, _, L = TEMPLATES[kind]
    k = len(ligs)
    xyz = np.zeros((k + 1, 3))
    for j in range(k):
        v = np.array(fig[placement[j]], dtype=float)
        xyz[j + 1] = v / np.linalg.norm(v) * (scale or L)
    return [cel] + ligs, xyz


def expected_desc(kind, placement, ids):
    """descriptor (up to the class' symmetry and a global handedness convention sign) of the arrangement in which atom
    ids[j] sits on vertex placement[j-1]: ordering = atom on position 1, 2, ..."""
    k = len(placement)
    inv = {pos: j for j, pos in enumerate(placement)}     # position -> ligand index
    return (kind, (ids[0],) + tuple(ids[1 + inv[p]] for p in range(1, k + 1)))


def ethene(xs=("H", "F", "Cl", "Br"), flip_end=False):
    """X0 Y1 C2=C3 Z4 W5, planar, 120 degree angles, bond lengths 1.05 x (sum of covalent radii); 0 cis to 4"""
    from stereomolgraph.periodic_table import COVALENT_RADII, PERIODIC_TABLE
    els = [xs[0], xs[1], "C", "C", xs[2], xs[3]]
    c2, c3 = np.array([-0.67, 0.0, 0.0]), np.array([0.67, 0.0, 0.0])
    xyz = np.zeros((6, 3))
    xyz[2], xyz[3] = c2, c3
    s60, c60 = 3 ** 0.5 / 2, 0.5
    f = -1.0 if flip_end else 1.0      # flip_end: substituents 4 and 5 exchange their places (the other stereoisomer)
    for i, (centre, dx, dy) in {0: (c2, -c60, s60), 1: (c2, -c60, -s60), 4: (c3, c60, f * s60), 5: (c3, c60, -f * s60)}.items():
        L = 1.05 * (COVALENT_RADII[PERIODIC_TABLE["C"]] + COVALENT_RADII[PERIODIC_TABLE[els[i]]])
        xyz[i] = centre + L * np.array([dx, dy, 0.0])
    return els, xyz


def noise_patterns(n, eps, count, seed):
    rng = np.random.default_rng(seed)
    pats = [np.zeros((n, 3))]
    for _ in range(count - 1):
        pats.append(rng.choice([-eps, 0.0, eps], size=(n, 3)))
    return pats
