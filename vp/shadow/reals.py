"""Engine B: shadow execution of the real NumPy float kernels on z3 real terms (DESIGN.md §1.3).

`R` is a real number kept as a fraction num/den of z3 polynomial terms with den > 0.  Square roots (np.linalg.norm,
np.sqrt) introduce a fresh positive symbol s with the recorded assumption s*s*den == num (general position: the radicand is
positive), so that every comparison stays a polynomial (in)equality - z3/cvc5 stall when sqrt or division are left in terms.
`B` is a symbolic Boolean; its __bool__ is a fork point served by `explore`, which re-executes the function under test
along every feasible decision trace (decisions on syntactically identical conditions are cached)."""
from __future__ import annotations

import itertools

import numpy as np
import z3


class NotEncodable(Exception):
    pass


class Ctx:
    """assumptions (norm symbols) + fork bookkeeping of one shadow execution"""
    cur = None

    counter = itertools.count()      # global: symbols of different shadow runs must never coincide

    def __init__(self):
        self.assumptions = []
        self.trace = []          # decisions taken so far in this run: list of (expr, bool)
        self.prefix = []         # decisions to replay
        self.cache = {}
        self.forks = []          # per decision: was the other outcome feasible too?
        self.unknown = False
        self.queries = 0

    def feasible(self, e):
        fs = list(self.assumptions) + [x if v else z3.Not(x) for x, v in self.trace] + [e]
        if sample_sat(fs):
            return True, False          # a concrete witness point satisfies the path condition: feasible
        s = z3.Solver()
        s.set("timeout", 8000)
        s.add(*self.assumptions)
        s.add(*[x if v else z3.Not(x) for x, v in self.trace])
        s.add(e)
        r = s.check()
        self.queries += 1
        return (r != z3.unsat), (r == z3.unknown)

    def fresh(self, name):
        return z3.Real(f"{name}_{next(self.counter)}")


def ctx():
    if Ctx.cur is None:
        Ctx.cur = Ctx()
    return Ctx.cur


def _num(x):
    if isinstance(x, R):
        return x
    if isinstance(x, (int, float, np.floating, np.integer)):
        from fractions import Fraction
        f = Fraction(float(x))
        return R(z3.RealVal(f"{f.numerator}/{f.denominator}"))
    raise NotEncodable(f"operand {type(x)}")


class R:
    """real number  n / (d * sqrt(rho))  with z3 polynomial terms n, d (> 0), rho (> 0; None = 1).
    No auxiliary symbol is introduced for a square root; comparisons are rewritten to polynomial form by squaring with
    sign case analysis.  Sums of values with different radicals raise NotEncodable."""
    __slots__ = ("n", "d", "rho")

    def __init__(self, n, d=None, rho=None):
        self.n = n
        self.d = d if d is not None else ONE
        self.rho = rho

    # --- helpers ---------------------------------------------------------------------------------------
    @staticmethod
    def _same_rho(a, b):
        if a.rho is None or b.rho is None:
            return a.rho is None and b.rho is None
        return z3.eq(a.rho, b.rho)

    def _is_zero(self):
        sn = z3.simplify(self.n)
        return z3.is_rational_value(sn) and sn.numerator_as_long() == 0

    # --- arithmetic ---------------------------------------------------------------------------------
    def __add__(self, o, sign=1):
        o = _num(o)
        if o._is_zero():
            return self
        if self._is_zero():
            return o if sign == 1 else -o
        if not R._same_rho(self, o):
            raise NotEncodable("sum of terms with different radicals")
        on = o.n if sign == 1 else -o.n
        if z3.eq(self.d, o.d):
            return R(self.n + on, self.d, self.rho)
        return R(self.n * o.d + on * self.d, self.d * o.d, self.rho)
    __radd__ = __add__

    def __sub__(self, o):
        return self.__add__(o, sign=-1)

    def __rsub__(self, o):
        return _num(o).__sub__(self)

    def __mul__(self, o):
        o = _num(o)
        n, d = self.n * o.n, _mul1(self.d, o.d)
        if self.rho is None:
            return R(n, d, o.rho)
        if o.rho is None:
            return R(n, d, self.rho)
        if z3.eq(self.rho, o.rho):
            return R(n, _mul1(d, self.rho), None)       # sqrt(rho) * sqrt(rho) = rho
        return R(n, d, self.rho * o.rho)
    __rmul__ = __mul__

    def __neg__(self):
        return R(-self.n, self.d, self.rho)

    def __pos__(self):
        return self

    def __truediv__(self, o):
        o = _num(o)
        # o must be known positive: a norm  sqrt(rho_o) = rho_o / sqrt(rho_o)  or a positive constant
        if o.rho is not None and z3.eq(o.n, o.rho) and z3.eq(o.d, ONE):
            ctx().assumptions.append(o.rho > 0)       # general position: non-degenerate vector
            # self / sqrt(rho_o) = self.n / (self.d * sqrt(self.rho) * sqrt(rho_o))
            if self.rho is None:
                return R(self.n, self.d, o.rho)
            if z3.eq(self.rho, o.rho):
                return R(self.n, _mul1(self.d, o.rho), None)
            return R(self.n, self.d, self.rho * o.rho)
        if o.rho is None and z3.is_rational_value(z3.simplify(o.n)) and z3.is_rational_value(z3.simplify(o.d)):
            q = z3.simplify(o.n / o.d)
            if q.numerator_as_long() > 0:
                return R(self.n * o.d, _mul1(self.d, o.n), self.rho)
        raise NotEncodable("division by a term that is not known to be positive")

    def __rtruediv__(self, o):
        return _num(o).__truediv__(self)

    def __abs__(self):
        return R(z3.If(self.n >= 0, self.n, -self.n), self.d, self.rho)

    def __pow__(self, k):
        if k == 2:
            return self * self
        raise NotEncodable("power")

    def conjugate(self):
        return self

    @property
    def real(self):
        return self

    def sqrt(self):
        if self._is_zero():
            return R(z3.RealVal(0))
        if self.rho is not None:
            raise NotEncodable("nested radical")
        rad = self.n if z3.eq(self.d, ONE) else self.n * self.d
        # sqrt(n/d) = sqrt(n d)/d = (n d) / (d sqrt(n d))
        return R(rad, self.d, rad)

    # --- comparisons -----------------------------------------------------------------------------------
    def _cmp(self, o, kind):
        o = _num(o)
        if self.rho is None and o.rho is None:
            lhs, rhs = self.n * o.d, o.n * self.d
            return B({"<": lhs < rhs, "<=": lhs <= rhs, ">": lhs > rhs, ">=": lhs >= rhs, "==": lhs == rhs, "!=": lhs != rhs}[kind])
        if o.rho is None and z3.is_rational_value(z3.simplify(o.n)) and z3.is_rational_value(z3.simplify(o.d)):
            t = z3.simplify(o.n / o.d)                   # rational constant
            tpos = t.numerator_as_long() >= 0
            n, rhs2 = self.n, t * t * self.d * self.d * self.rho     # compare n with t*d*sqrt(rho), both sides squared
            ctx().assumptions.append(self.rho > 0)
            if z3.eq(self.n, self.rho) and z3.eq(self.d, ONE) and tpos:
                # pure square root sqrt(rho) against a non-negative constant: compare rho with t^2
                e = {"<": self.rho < t * t, "<=": self.rho <= t * t, ">": self.rho > t * t, ">=": self.rho >= t * t,
                     "==": self.rho == t * t, "!=": self.rho != t * t}[kind]
                return B(e)
            if kind in (">", ">="):
                strict = (kind == ">")
                if tpos:
                    e = z3.And(n > 0, (n * n > rhs2) if strict else (n * n >= rhs2))
                else:
                    e = z3.Or(n >= 0, (n * n < rhs2) if strict else (n * n <= rhs2))
                return B(e)
            if kind in ("<", "<="):
                strict = (kind == "<")
                if t.numerator_as_long() > 0:
                    e = z3.Or(n <= 0, (n * n < rhs2) if strict else (n * n <= rhs2))
                elif t.numerator_as_long() == 0:
                    e = (n < 0) if strict else (n <= 0)
                else:
                    e = z3.And(n < 0, (n * n > rhs2) if strict else (n * n >= rhs2))
                return B(e)
            if kind == "!=":
                e = z3.Not(z3.And((n >= 0) == tpos, n * n == rhs2)) if t.numerator_as_long() != 0 else (n != 0)
                return B(e)
            if kind == "==":
                e = z3.And((n >= 0) == tpos, n * n == rhs2) if t.numerator_as_long() != 0 else (n == 0)
                return B(e)
        raise NotEncodable("comparison of two different radical terms")

    def __lt__(self, o):
        return self._cmp(o, "<")

    def __le__(self, o):
        return self._cmp(o, "<=")

    def __gt__(self, o):
        return self._cmp(o, ">")

    def __ge__(self, o):
        return self._cmp(o, ">=")

    def __eq__(self, o):
        return self._cmp(o, "==")

    def __ne__(self, o):
        return self._cmp(o, "!=")

    __hash__ = None

    def sign_expr(self):
        return z3.If(self.n > 0, z3.IntVal(1), z3.If(self.n < 0, z3.IntVal(-1), z3.IntVal(0)))


ONE = z3.RealVal(1)


def _mul1(a, b):
    if z3.eq(a, ONE):
        return b
    if z3.eq(b, ONE):
        return a
    return a * b


POSITIVE = set()


def _known_positive(o):
    return False


class B:
    """symbolic Boolean; bool() forks"""
    __slots__ = ("e",)

    def __init__(self, e):
        # sum-of-monomials normal form: (a-b)^2 and (b-a)^2 become the same term, so they share one decision
        self.e = z3.simplify(e, som=True, arith_lhs=True, sort_sums=True)

    def __bool__(self):
        c = ctx()
        key = self.e.sexpr()
        if key in c.cache:
            return c.cache[key]
        i = len(c.trace)
        if i < len(c.prefix):
            v = c.prefix[i][1]
            both = False
        else:
            # solver in the loop: only feasible outcomes are followed
            t, unk_t = c.feasible(self.e)
            f, unk_f = c.feasible(z3.Not(self.e))
            c.unknown = c.unknown or unk_t or unk_f
            if t:
                v = True
                both = f
            else:
                v = False
                both = False
        c.trace.append((self.e, v))
        c.forks.append(both)
        c.cache[key] = v
        return v

    def __and__(self, o):
        return B(z3.And(self.e, o.e if isinstance(o, B) else z3.BoolVal(bool(o))))

    def __or__(self, o):
        return B(z3.Or(self.e, o.e if isinstance(o, B) else z3.BoolVal(bool(o))))

    def __invert__(self):
        return B(z3.Not(self.e))


class Sign:
    """result of np.sign on a symbolic real; only `.astype`, int() on decided values and comparisons are supported"""
    def __init__(self, r):
        self.r = r
        self.expr = r.sign_expr()

    def astype(self, *_a, **_k):
        return self

    def __neg__(self):
        return Sign(-self.r)

    def __mul__(self, k):
        if k == -1:
            return Sign(-self.r)
        if k == 1:
            return self
        raise NotEncodable("sign * k")
    __rmul__ = __mul__

    def __int__(self):
        # forks: +1 / -1 / 0
        if bool(B(self.r.n > 0)):
            return 1
        if bool(B(self.r.n < 0)):
            return -1
        return 0


QUERIES = [0]
_RNG = np.random.default_rng(12345)


def _vars(fs):
    seen = {}
    stack = list(fs)
    visited = set()
    while stack:
        x = stack.pop()
        if x.get_id() in visited:
            continue
        visited.add(x.get_id())
        if z3.is_const(x) and x.decl().kind() == z3.Z3_OP_UNINTERPRETED:
            seen[x.get_id()] = x
        else:
            stack.extend(x.children())
    return list(seen.values())


def sample_sat(fs, tries=400):
    """cheap sound test for satisfiability: evaluate the formulas at random rational points; True = witness found"""
    vs = _vars(fs)
    conj = z3.And(*fs) if len(fs) > 1 else fs[0]
    for k in range(tries):
        scale = (0.3, 0.6, 1.0, 1.5, 2.5, 5.0)[k % 6]
        sub = [(v, z3.RealVal(str(round(float(_RNG.normal() * scale), 3)))) for v in vs]
        r = z3.simplify(z3.substitute(conj, *sub))
        if z3.is_true(r):
            return True
    return False


def explore(fn, max_paths=4096):
    """Run fn() along every feasible decision trace (feasibility decided by z3 at each fork).
    Yields (path condition, assumptions, result, some_query_was_unknown)."""
    stack = [[]]
    n = 0
    while stack:
        prefix = stack.pop()
        c = Ctx()
        c.prefix = prefix
        Ctx.cur = c
        try:
            res = fn()
        finally:
            Ctx.cur = None
        QUERIES[0] += c.queries
        n += 1
        if n > max_paths:
            raise NotEncodable("too many paths")
        trace = c.trace
        cond = [e if v else z3.Not(e) for e, v in trace]
        yield (z3.And(*cond) if cond else z3.BoolVal(True)), list(c.assumptions), res, c.unknown
        for i in range(len(prefix), len(trace)):
            if c.forks[i]:
                stack.append([(e, v) for e, v in trace[:i]] + [(trace[i][0], not trace[i][1])])


def sym_points(name, n, dim=3):
    a = np.empty((n, dim), dtype=object)
    for i in range(n):
        for k in range(dim):
            a[i, k] = R(z3.Real(f"{name}{i}{'xyz'[k]}"))
    return a


def apply_affine(P, M, t):
    """P: (n,3) object array of R; M: 3x3 list of z3 terms / numbers; t: 3 terms"""
    out = np.empty(P.shape, dtype=object)
    for i in range(P.shape[0]):
        for r in range(3):
            acc = _num(0)
            for c in range(3):
                acc = acc + _num_or_term(M[r][c]) * P[i, c]
            out[i, r] = acc + _num_or_term(t[r])
    return out


def _num_or_term(x):
    if isinstance(x, R):
        return x
    if z3.is_expr(x):
        return R(x)
    return _num(x)


class NpProxy:
    """forwards to numpy except a handful of functions that insist on float dtypes"""
    def __init__(self):
        self.stubs_used = set()

    def __getattr__(self, name):
        return getattr(np, name)

    def sign(self, x):
        if isinstance(x, R):
            self.stubs_used.add("np.sign -> symbolic sign (ite on the numerator; denominators are positive)")
            return Sign(x)
        if isinstance(x, np.ndarray) and x.dtype == object:
            self.stubs_used.add("np.sign -> symbolic sign (ite on the numerator; denominators are positive)")
            flat = [Sign(v) for v in x.ravel()]
            if x.shape == () or x.size == 1:
                return flat[0]
            out = np.empty(x.shape, dtype=object)
            out.ravel()[:] = flat
            return _SignArray(out)
        return np.sign(x)

    def issubdtype(self, a, b):
        if a == object:
            self.stubs_used.add("np.issubdtype -> accepts object dtype")
            return True
        return np.issubdtype(a, b)

    def where(self, cond, a=None, b=None):
        if isinstance(cond, np.ndarray) and cond.dtype == object:
            self.stubs_used.add("np.where(cond, 1, 0) -> array of symbolic conditions")
            return cond
        return np.where(cond, a, b)


class _SignArray:
    def __init__(self, arr):
        self.arr = arr

    def astype(self, *_a, **_k):
        return self.arr
