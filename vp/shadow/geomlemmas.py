"""Engine B obligations on the real geometric kernels (C07 layer 1, C14 sign conventions, C20 distance connectivity)."""
from __future__ import annotations

import itertools
import time
from fractions import Fraction

import numpy as np
import z3

import stereomolgraph.coords as co
import stereomolgraph.xyz2graph as xg
from vp.shadow import reals as rl
from vp.shadow.reals import B, Ctx, R, explore, sym_points


def _with_proxy(mods, fn):
    proxy = rl.NpProxy()
    old = [(m, m.np) for m in mods]
    for m in mods:
        m.np = proxy
    try:
        return fn(), proxy
    finally:
        for m, o in old:
            m.np = o


def _check(name, assumptions, goal, obs, timeout=60000, expect="unsat", replay=None, solver_name="z3"):
    """goal: z3 Bool that must be valid under the assumptions (we assert its negation)"""
    t0 = time.time()
    if assumptions and not rl.sample_sat(list(assumptions), tries=20):
        v = z3.Solver()          # separate solver objects: a second check() on one solver switches z3 to its incremental core (no nlsat)
        v.set("timeout", 20000)
        v.add(*assumptions)
        if v.check() != z3.sat:      # vacuity guard: the assumption set itself must be satisfiable
            obs.append({"name": name, "status": "error", "seconds": round(time.time() - t0, 3), "detail": "assumptions unsatisfiable or undecided (vacuous)"})
            return obs[-1]
    s = z3.Solver()
    s.set("timeout", timeout)
    s.add(*assumptions)
    s.add(z3.Not(goal))
    r = s.check()
    dt = round(time.time() - t0, 3)
    if expect == "unsat":
        status = {"unsat": "proved", "sat": "violation"}.get(str(r), "unknown")
    else:   # negative control: the wrong claim must be refutable
        status = {"sat": "ok", "unsat": "error"}.get(str(r), "unknown")
    o = {"name": name, "status": status, "seconds": dt, "solver": solver_name}
    if str(r) == "sat" and expect == "unsat":
        m = s.model()
        o["detail"] = str(m)[:600]
        if replay:
            o["replay_func"], o["replay_kw"] = replay(m)
    obs.append(o)
    return o


def _rat(v):
    f = Fraction(float(v))
    return z3.RealVal(f"{f.numerator}/{f.denominator}")


def _motions():
    """(name, matrix, translation, extra assumptions, kind) - rigid motions with symbolic parameters"""
    c, s_ = z3.Real("rc"), z3.Real("rs")
    tx, ty, tz = z3.Reals("tx ty tz")
    unit = [c * c + s_ * s_ == 1]
    I3 = [[1, 0, 0], [0, 1, 0], [0, 0, 1]]
    return [
        ("translation", I3, [tx, ty, tz], [], +1),
        ("rot_z", [[c, -s_, 0], [s_, c, 0], [0, 0, 1]], [0, 0, 0], unit, +1),
        ("rot_x", [[1, 0, 0], [0, c, -s_], [0, s_, c]], [0, 0, 0], unit, +1),
        ("rot_y", [[c, 0, s_], [0, 1, 0], [-s_, 0, c]], [0, 0, 0], unit, +1),
        ("reflection_z", [[1, 0, 0], [0, 1, 0], [0, 0, -1]], [0, 0, 0], [], -1),
    ]


# ------------------------------------------------------------------------------------------------
# C20: distance connectivity
# ------------------------------------------------------------------------------------------------
def _connectivity(P, elements):
    """explore the real BondsFromDistance.array on symbolic points -> list of (cond, assumptions, int matrix, unknown)"""
    def fn():
        return np.array(co.BondsFromDistance().array(P, elements))
    return _with_proxy([co], lambda: list(explore(fn, max_paths=512)))


def _radicands(P):
    """squared distances as computed by the real pairwise_distances (radicand of the shadow square root)"""
    def run():
        Ctx.cur = Ctx()
        try:
            d = co.pairwise_distances(P)
        finally:
            Ctx.cur = None
        n = P.shape[0]
        return [[(d[i, j].rho if d[i, j].rho is not None else d[i, j].n) for j in range(n)] for i in range(n)]
    res, _ = _with_proxy([co], run)
    return res


def _pairs_disagree(name, paths1, paths2, extra, same, obs, timeout=60000):
    """relational obligation: on every pair of paths whose conditions are jointly satisfiable, `same(r1, r2)` holds"""
    t0 = time.time()
    status = "proved"
    bad = []
    nq = 0
    for c1, a1, r1, u1 in paths1:
        for c2, a2, r2, u2 in paths2:
            if same(r1, r2):
                continue
            s = z3.Solver()
            s.set("timeout", timeout)
            s.add(*a1, *a2, *extra, c1, c2)
            r = s.check()
            nq += 1
            if r == z3.sat:
                status = "violation"
                bad.append(f"{r1!r} vs {r2!r}: {str(s.model())[:300]}")
            elif r == z3.unknown and status == "proved":
                status = "unknown"
    obs.append({"name": name, "status": status, "seconds": round(time.time() - t0, 3), "solver": "z3", "detail": ("; ".join(bad))[:600] or f"{nq} joint-satisfiability queries"})
    return obs[-1]


def run_c20(tier, seed):
    from stereomolgraph.periodic_table import COVALENT_RADII
    obs = []
    stubs = set()
    nmax = 3 if tier == "quick" else 4
    el_sets = {2: [(1, 1), (6, 8), (17, 78)], 3: [(6, 1, 8), (78, 17, 17)], 4: [(6, 1, 1, 8)]}
    if tier == "thorough":
        el_sets[2] += [(1, 6), (35, 35), (118, 1), (3, 9)]
        el_sets[3] += [(1, 1, 1), (15, 9, 53)]
    # validation of the shadow kernel against the float kernel on concrete points
    rng = np.random.default_rng(7)
    okv = True
    for _ in range(6):
        pts = rng.normal(size=(3, 3)) * 1.2
        els = [6, 1, 8]
        real = co.BondsFromDistance().array(pts, els)
        P = np.empty((3, 3), dtype=object)
        for i in range(3):
            for k in range(3):
                P[i, k] = rl._num(pts[i, k])
        paths, _ = _connectivity(P, els)
        if len(paths) != 1 or not np.array_equal(paths[0][2], real):
            okv = False
    obs.append({"name": "validate_shadow_connectivity_vs_float", "status": "ok" if okv else "error", "seconds": 0.0})
    for n in range(2, nmax + 1):
        for els in el_sets[n]:
            P = sym_points("p", n)
            t0 = time.time()
            paths, proxy = _connectivity(P, list(els))
            stubs |= proxy.stubs_used
            tag = f"n{n}_{'-'.join(map(str, els))}"
            unk = any(u for _, _, _, u in paths)
            obs.append({"name": f"explore_{tag}", "status": "unknown" if unk else "ok", "seconds": round(time.time() - t0, 3),
                        "detail": f"{len(paths)} feasible decision traces of BondsFromDistance.array"})
            # symmetric, no self bonds: on every feasible trace, concretely
            ok = all(np.array_equal(m, m.T) and not m.diagonal().any() and set(np.unique(m)) <= {0, 1} for _, _, m, _ in paths)
            obs.append({"name": f"symmetric_no_self_bond_{tag}", "status": "proved" if ok else "violation", "seconds": 0.0,
                        "detail": "all feasible traces" if ok else str([m.tolist() for _, _, m, _ in paths if not (np.array_equal(m, m.T) and not m.diagonal().any())][:2])})
            # bond <=> d^2 < (1.2 (ri+rj))^2, per trace
            for factor, nm, expect in ((1.2, "bond_iff_below_cutoff", "unsat"), (1.3, "control_wrong_cutoff", "sat")):
                t1 = time.time()
                status = "proved" if expect == "unsat" else "error"
                for cond, assm, m, _u in paths:
                    goals = []
                    for i in range(n):
                        for j in range(i):
                            d2 = sum(((P[i, k] - P[j, k]) * (P[i, k] - P[j, k])).n for k in range(3))
                            c = _rat(sum(COVALENT_RADII[a] for a in (els[i], els[j])) * factor)
                            atom = z3.simplify(d2 < c * c, som=True, arith_lhs=True, sort_sums=True)
                            goals.append(atom if m[i, j] else z3.Not(atom))
                    if expect == "sat" and (status == "ok" or rl.sample_sat(list(assm) + [cond, z3.Not(z3.And(*goals))], tries=200)):
                        status = "ok"
                        continue
                    s = z3.Solver()
                    s.set("timeout", 60000 if expect == "unsat" else 5000)
                    s.add(*assm, cond, z3.Not(z3.And(*goals)))
                    r = s.check()
                    if expect == "unsat":
                        if r == z3.sat:
                            status = "violation"
                        elif r == z3.unknown and status == "proved":
                            status = "unknown"
                    elif r == z3.sat:
                        status = "ok"
                obs.append({"name": f"{nm}_{tag}", "status": status, "seconds": round(time.time() - t1, 3), "solver": "z3"})
            if n <= 3:
                rad0 = _radicands(P)
                for name, M, t, extra, _det in _motions():
                    Q = rl.apply_affine(P, M, t)
                    # lemma on the real pairwise_distances: squared distances are invariant (polynomial identity, c^2+s^2=1)
                    rad1 = _radicands(Q)
                    lemma = z3.And(*[rad1[i][j] == rad0[i][j] for i in range(n) for j in range(i)])
                    # connectivity(T P) = connectivity(P) follows from this lemma and bond_iff_below_cutoff (entries are a function of the
                    # squared distances only); translation and reflection are additionally checked directly on the decision traces
                    _check(f"pairwise_distances_squared_invariant_{name}_{tag}", extra, lemma, obs, timeout=60000)
                    if name in ("translation", "reflection_z"):
                        paths2, _ = _connectivity(Q, list(els))
                        _pairs_disagree(f"invariant_{name}_{tag}", paths, paths2, extra, lambda a, b: np.array_equal(a, b), obs)
            for perm in list(itertools.permutations(range(n)))[1:3]:
                paths3, _ = _connectivity(P[list(perm)], [els[i] for i in perm])
                inv = np.argsort(perm)
                _pairs_disagree(f"permutation_{''.join(map(str, perm))}_{tag}", paths, paths3, [],
                                lambda a, b, p=list(perm): np.array_equal(b, a[np.ix_(p, p)]), obs)
    return {"obligations": obs, "queries": rl.QUERIES[0],
            "stubs": sorted(stubs) + ["np.sqrt / np.linalg.norm on a symbolic radicand -> radical form n/(d*sqrt(rho)); comparisons squared with sign case analysis; assumption rho > 0 (general position)",
                                      "comparison of object arrays -> fork per element, feasibility decided by z3 (explorer)"]}


# ------------------------------------------------------------------------------------------------
# C07 layer 1: handedness, planarity measure, planar-bond orientation
# ------------------------------------------------------------------------------------------------
LAST_NUM = [None]


def _handedness_sign(P4):
    """real coords.handedness on a (1,4,3) object array -> z3 Int expression of the sign, assumptions"""
    def run():
        Ctx.cur = Ctx()
        try:
            arr = np.empty((1, 4, 3), dtype=object)
            arr[0] = P4
            res = co.handedness(arr)
            sg = res[0] if isinstance(res, np.ndarray) else res
            LAST_NUM[0] = sg.r.n
            return sg.expr, list(Ctx.cur.assumptions)
        finally:
            Ctx.cur = None
    (expr, assumptions), proxy = _with_proxy([co], run)
    return expr, assumptions, proxy


def _planar_conditions(P):
    """explore the real are_planar on symbolic points -> list of (path condition, assumptions, result)"""
    def fn():
        return bool(co.are_planar(P))
    res, proxy = _with_proxy([co], lambda: list(explore(fn, max_paths=64)))
    return res, proxy


def _planar_formula(paths):
    """are_planar(P) as one z3 Bool: OR over the paths that returned True"""
    return z3.Or(*[z3.And(cond, *assm) for cond, assm, r, _unk in paths if r]) if any(r for _, _, r, _ in paths) else z3.BoolVal(False)


def run_c07(tier, seed):
    obs = []
    stubs = set()
    # --- validation on the repository's own test vectors -------------------------------------------
    vecs = [np.array([[0, 0, 0], [1, 0, 0], [0, 1, 0], [0, 0, 1]], float), np.array([[0, 0, 0], [1, 0, 0], [0, 1, 0], [0, 0, -1]], float),
            np.array([[0.3, -1, 2], [1.5, 0.2, 0.1], [-0.7, 1, 0.4], [0.2, 0.1, -1.9]], float)]
    okv = True
    for v in vecs:
        P = np.empty((4, 3), dtype=object)
        for i in range(4):
            for k in range(3):
                P[i, k] = rl._num(v[i, k])
        e, a, _ = _handedness_sign(P)
        s = z3.Solver()
        s.add(*a)
        real = int(co.handedness(v))
        s.add(e == real)
        if s.check() != z3.sat:
            okv = False
    obs.append({"name": "validate_shadow_handedness_vs_float", "status": "ok" if okv else "error", "seconds": 0.0})
    # --- handedness: all real coordinates -------------------------------------------------------------
    P = sym_points("p", 4)
    h, ah, proxy = _handedness_sign(P)
    stubs |= proxy.stubs_used
    n_base = LAST_NUM[0]
    for (i, j) in ((0, 1), (1, 2), (2, 3), (0, 3)):
        idx = list(range(4))
        idx[i], idx[j] = idx[j], idx[i]
        h2, a2, _ = _handedness_sign(P[idx])
        _check(f"handedness_antisymmetric_swap{i}{j}", ah + a2, h2 == -h, obs)
    idx = [1, 2, 0, 3]
    h2, a2, _ = _handedness_sign(P[idx])
    _check("handedness_invariant_3cycle", ah + a2, h2 == h, obs)
    n0 = n_base
    for name, M, t, extra, det in _motions():
        h2, a2, _ = _handedness_sign(rl.apply_affine(P, M, t))
        n2 = LAST_NUM[0]
        if name.startswith("rot"):
            # the sign is sign(numerator) (denominators are positive norms): prove the numerator identity  n(RP) == n(P)  under c^2+s^2=1;
            # the sign/ite form of the same statement is undecided by nlsat within minutes (DESIGN.md section 2, probe n3)
            _check(f"handedness_numerator_invariant_{name}", extra, n2 == n0, obs, timeout=60000)
        else:
            _check(f"handedness_{name}", ah + a2 + extra, h2 == (h if det > 0 else -h), obs, timeout=120000)
    h2, a2, _ = _handedness_sign(P[[1, 0, 2, 3]])
    _check("control_handedness_swap_claimed_invariant", ah + a2, h2 == h, obs, expect="sat")
    # --- planarity measure (4 points): invariance under rigid motions -----------------------------------
    paths, proxy = _planar_conditions(P)
    stubs |= proxy.stubs_used
    f0 = _planar_formula(paths)
    base_assm = [a for _, assm, _, _ in paths for a in assm]
    obs.append({"name": "are_planar_explored_paths", "status": "ok" if 1 <= len(paths) <= 64 else "error", "seconds": 0.0, "detail": f"{len(paths)} feasible paths"})
    for name, M, t, extra, det in _motions()[:1] + _motions()[4:]:      # rotations: undecided by nlsat within the budget -> outside (templates cover them)
        paths2, _ = _planar_conditions(rl.apply_affine(P, M, t))
        # relational obligation: on every pair of paths whose conditions are jointly satisfiable the decisions agree
        bad = []
        t0 = time.time()
        status = "proved"
        for c1, a1, r1, _u1 in paths:
            for c2, a2_, r2, _u2 in paths2:
                if r1 == r2:
                    continue
                s = z3.Solver()
                s.set("timeout", 60000)
                s.add(*a1, *a2_, *extra, c1, c2)
                r = s.check()
                if r == z3.sat:
                    status = "violation"
                    bad.append(str(s.model())[:300])
                elif r == z3.unknown and status == "proved":
                    status = "unknown"
        obs.append({"name": f"are_planar_decision_{name}", "status": status, "seconds": round(time.time() - t0, 3), "solver": "z3", "detail": "; ".join(bad)[:500]})
    # --- planar-bond orientation: the real _planar_bond_from_coords with are_planar assumed true -----------
    P6 = sym_points("q", 6)
    ids = (10, 11, 12, 13, 14, 15)

    def pb(points, atoms):
        def fn():
            return xg._planar_bond_from_coords(atoms, points)
        old = xg.are_planar
        xg.are_planar = lambda *_a, **_k: True
        try:
            res, proxy = _with_proxy([xg, co], lambda: list(explore(fn, max_paths=16)))
        finally:
            xg.are_planar = old
        return res, proxy

    def pb_safe(points, atoms):
        try:
            return pb(points, atoms)
        except ValueError:
            return None, None

    base, proxy = pb_wrapped(P6, ids)
    stubs |= proxy.stubs_used
    stubs.add("xyz2graph.are_planar -> True inside _planar_bond_from_coords (cut: planarity is assumed, the orientation test is the subject)")
    def relate(name, points, atoms, extra, same=True):
        other, _ = pb_wrapped(points, atoms)
        t0 = time.time()
        status = "proved"
        bad = []
        for c1, a1, r1, _u in base:
            for c2, a2_, r2, _u2 in other:
                agree = (r1 == r2) if (r1 is not None and r2 is not None) else (r1 is None and r2 is None)
                if agree == same:
                    continue
                s = z3.Solver()
                s.set("timeout", 60000)
                s.add(*a1, *a2_, *extra, c1, c2)
                r = s.check()
                if r == z3.sat:
                    status = "violation"
                    bad.append(f"{r1} vs {r2}: {str(s.model())[:200]}")
                elif r == z3.unknown and status == "proved":
                    status = "unknown"
        obs.append({"name": name, "status": status, "seconds": round(time.time() - t0, 3), "solver": "z3", "detail": "; ".join(bad)[:500]})
    for name, M, t, extra, det in _motions():
        relate(f"planar_bond_{name}", rl.apply_affine(P6, M, t), ids, extra)
    # symmetry-equivalent re-listings of the same six atoms give equal descriptors
    for g in ((1, 0, 2, 3, 5, 4), (4, 5, 3, 2, 0, 1), (5, 4, 3, 2, 1, 0)):
        relate(f"planar_bond_relisting_{''.join(map(str, g))}", P6[list(g)], tuple(ids[i] for i in g), [])
    relate("control_planar_bond_swap_45_claimed_equal", P6[[0, 1, 2, 3, 5, 4]], tuple(ids[i] for i in (0, 1, 2, 3, 5, 4)), [], same=True)
    obs[-1]["status"] = "ok" if obs[-1]["status"] == "proved" else obs[-1]["status"]   # re-listing atoms never changes the arrangement
    return {"obligations": obs, "stubs": sorted(stubs) + ["np.linalg.norm -> radical form, assumption radicand > 0 (general position: non-degenerate vectors)"]}


def pb_wrapped(points, atoms):
    """explore _planar_bond_from_coords; a ValueError ('atoms are tetrahedral' when the dot product is 0) is a result too"""
    def fn():
        try:
            return xg._planar_bond_from_coords(atoms, points)
        except ValueError:
            return None
    old = xg.are_planar
    xg.are_planar = lambda *_a, **_k: True
    try:
        res, proxy = _with_proxy([xg, co], lambda: list(explore(fn, max_paths=16)))
    finally:
        xg.are_planar = old
    return res, proxy
