"""Engine B lemmas on the real hashing kernels of stereomolgraph.algorithms.color_refine (DESIGN.md §1.3, C03/C16).

The real functions `numpy_int_tuple_hash` / `numpy_int_multiset_hash` are executed unchanged on NumPy object arrays whose
elements are `W` wrappers around z3 64-bit bit-vector terms.  `np.sort` (C code on int64) is replaced, in this process only,
by a comparison network over signed 64-bit terms (stub, validated on concrete arrays).  For *proofs* the multiplication
by the mixer constants is abstracted by an uninterpreted function (sound for proving equalities); satisfiable-direction
queries use exact bit-vector arithmetic."""
from __future__ import annotations

import itertools
import time

import numpy as np
import z3

import stereomolgraph.algorithms.color_refine as cr

MUL = z3.Function("MUL", z3.BitVecSort(64), z3.BitVecSort(64), z3.BitVecSort(64))


class W:
    """64-bit word; `exact` selects exact multiplication vs. the uninterpreted mixer."""
    __slots__ = ("t", "exact")

    def __init__(self, t, exact=True):
        self.t = t if z3.is_bv(t) else z3.BitVecVal(int(t) & ((1 << 64) - 1), 64)
        self.exact = exact

    def _c(self, o):
        return o.t if isinstance(o, W) else z3.BitVecVal(int(o) & ((1 << 64) - 1), 64)

    def __xor__(self, o):
        return W(self.t ^ self._c(o), self.exact)
    __rxor__ = __xor__
    __ixor__ = __xor__

    def __mul__(self, o):
        if self.exact:
            return W(self.t * self._c(o), self.exact)
        return W(MUL(self.t, self._c(o)), self.exact)
    __rmul__ = __mul__
    __imul__ = __mul__

    def __add__(self, o):
        return W(self.t + self._c(o), self.exact)
    __radd__ = __add__
    __iadd__ = __add__


def warr(terms, exact):
    a = np.empty(len(terms), dtype=object)
    for i, t in enumerate(terms):
        a[i] = W(t, exact)
    return a


def net_sort(a, axis=-1):
    """comparison network (bubble) on a 1-d object array of W, signed 64-bit order like np.sort on int64"""
    xs = [w.t for w in a]
    exact = a[0].exact if len(a) else True
    n = len(xs)
    for i in range(n):
        for j in range(n - 1 - i):
            lo = z3.If(xs[j] <= xs[j + 1], xs[j], xs[j + 1])
            hi = z3.If(xs[j] <= xs[j + 1], xs[j + 1], xs[j])
            xs[j], xs[j + 1] = lo, hi
    return warr(xs, exact)


class NpProxy:
    """forwards everything to numpy except the listed stubs"""
    def __init__(self):
        self.stubs_used = set()

    def __getattr__(self, name):
        return getattr(np, name)

    def sort(self, a, axis=-1):
        if a.dtype == object:
            self.stubs_used.add("np.sort -> signed comparison network (bubble sort of ite terms)")
            return net_sort(a, axis)
        return np.sort(a, axis=axis)


def tuple_hash_sym(words):
    out = np.empty((), dtype=object)
    res = cr.numpy_int_tuple_hash(words, out=out)
    return res[()].t


def multiset_hash_sym(words, proxy):
    out = np.empty((), dtype=object)
    old = cr.np
    cr.np = proxy
    try:
        res = cr.numpy_int_multiset_hash(words, out=out)
    finally:
        cr.np = old
    return res[()].t


def _solve(solver, timeout_ms):
    solver.set("timeout", timeout_ms)
    t0 = time.time()
    r = solver.check()
    return str(r), round(time.time() - t0, 3)


def _signed(v):
    v &= (1 << 64) - 1
    return v - (1 << 64) if v >= (1 << 63) else v


def validate(obs):
    """encoding validation: shadow kernels on concrete words == real int64 kernels (fixtures + pseudo-random)"""
    import random
    rng = random.Random(1)
    vecs = [[0], [1, 2, 3], [6, 1, 8], [-1, 0, 1 << 62, -(1 << 63)], [rng.randrange(-(1 << 63), 1 << 63) for _ in range(6)],
            [5, 5, 5, 5], [97531, 0x345678, 1000003]]
    proxy = NpProxy()
    ok = True
    t0 = time.time()
    for v in vecs:
        arr = np.array(v, dtype=np.int64)
        with np.errstate(over="ignore"):
            real_t = int(cr.numpy_int_tuple_hash(arr.copy()))
            real_m = int(cr.numpy_int_multiset_hash(arr.copy()))
        sym_t = z3.simplify(tuple_hash_sym(warr([z3.BitVecVal(x & ((1 << 64) - 1), 64) for x in v], True)))
        sym_m = z3.simplify(multiset_hash_sym(warr([z3.BitVecVal(x & ((1 << 64) - 1), 64) for x in v], True), proxy))
        if _signed(sym_t.as_long()) != real_t or _signed(sym_m.as_long()) != real_m:
            ok = False
            obs.append({"name": f"validate_shadow_vs_int64_{v}", "status": "error", "seconds": 0, "detail": f"{sym_t} vs {real_t}; {sym_m} vs {real_m}"})
    obs.append({"name": "validate_shadow_kernels_vs_real_int64", "status": "ok" if ok else "error", "seconds": round(time.time() - t0, 3),
                "detail": f"{len(vecs)} vectors, tuple and multiset hash"})
    return proxy


def run(tier, seed):
    obs = []
    proxy = validate(obs)
    nmax = 4 if tier == "quick" else 5
    for n in range(2, nmax + 1):
        xs = [z3.BitVec(f"x{i}", 64) for i in range(n)]
        base = multiset_hash_sym(warr(xs, False), proxy)
        for (i, j) in [(i, i + 1) for i in range(n - 1)] + ([(0, n - 1)] if n > 2 else []):
            ys = list(xs)
            ys[i], ys[j] = ys[j], ys[i]
            other = multiset_hash_sym(warr(ys, False), proxy)
            s = z3.Solver()
            s.add(base != other)
            r, dt = _solve(s, 120000)
            obs.append({"name": f"multiset_hash_invariant_n{n}_swap{i}{j}", "solver": "z3", "seconds": dt,
                        "status": {"unsat": "proved", "sat": "violation"}.get(r, "unknown"),
                        "detail": "EUF mixer, sort network" if r != "sat" else str(s.model()),
                        "replay_func": "vp.shadow.hashlemmas:replay_multiset", "replay_kw": _model_kw(s, xs, (i, j)) if r == "sat" else None})
        # negative control: without the sort the tuple hash IS order sensitive (exact arithmetic, satisfiable direction)
        a = tuple_hash_sym(warr(xs, True))
        ys = list(xs)
        ys[0], ys[1] = ys[1], ys[0]
        b = tuple_hash_sym(warr(ys, True))
        s = z3.Solver()
        s.add(a != b)
        r, dt = _solve(s, 60000)
        obs.append({"name": f"control_tuple_hash_order_sensitive_n{n}", "solver": "z3", "seconds": dt,
                    "status": "ok" if r == "sat" else ("error" if r == "unsat" else "unknown"), "detail": "negative control must be sat"})
    return {"obligations": obs, "stubs": sorted(proxy.stubs_used) + ["64-bit multiply by mixer constants -> uninterpreted function MUL (proof direction only)"]}


def _model_kw(s, xs, swap):
    m = s.model()
    return {"xs": [_signed(m.eval(x, model_completion=True).as_long()) for x in xs], "swap": list(swap)}


def replay_multiset(xs, swap):
    """native replay of a sat model: does the real int64 multiset hash change under the swap?"""
    a = np.array(xs, dtype=np.int64)
    b = a.copy()
    b[swap[0]], b[swap[1]] = b[swap[1]], b[swap[0]]
    with np.errstate(over="ignore"):
        ha, hb = int(cr.numpy_int_multiset_hash(a)), int(cr.numpy_int_multiset_hash(b))
    if ha != hb:
        return f"numpy_int_multiset_hash({xs}) = {ha} but after swapping positions {swap} = {hb}"
    return None


def run_c16(tier, seed):
    """satisfiable-direction lemmas: the mixer really depends on order and on every word (exact bit-vectors)"""
    obs = []
    proxy = validate(obs)
    for n in (2, 3):
        xs = [z3.BitVec(f"x{i}", 64) for i in range(n)]
        for i in range(n):
            ys = list(xs)
            ys[i] = z3.BitVec("y", 64)
            s = z3.Solver()
            s.add(ys[i] != xs[i], tuple_hash_sym(warr(xs, True)) != tuple_hash_sym(warr(ys, True)))
            r, dt = _solve(s, 60000)
            obs.append({"name": f"tuple_hash_depends_on_word{i}_n{n}", "solver": "z3", "seconds": dt,
                        "status": "ok" if r == "sat" else ("violation" if r == "unsat" else "unknown"),
                        "replay_func": None})
    return {"obligations": obs, "stubs": sorted(proxy.stubs_used)}
