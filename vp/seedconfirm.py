"""Development aid (seeded-fault study): re-confirms kept changes under /verif/seeded/ in one scratch worktree of /repo (outside /repo and /verif,
removed afterwards): patch applies, unit suite passes as without the change, demo exits non-zero with and zero without the change.
usage: seedconfirm.py <out.jsonl> <seed> [<seed> ...]"""
import json, os, subprocess, sys


def sh(cmd, cwd=None, env=None, timeout=3600):
    e = dict(os.environ)
    if env:
        e.update(env)
    p = subprocess.run(cmd, shell=True, cwd=cwd, env=e, capture_output=True, text=True, timeout=timeout)
    return p.returncode, (p.stdout + p.stderr)


def main():
    out, seeds = sys.argv[1], sys.argv[2:]
    wt = f"/tmp/wt_confirm_{os.getpid()}"
    rc, o = sh(f"git -C /repo worktree add --detach {wt} HEAD")
    assert rc == 0, o
    env = {"PYTHONPATH": f"{wt}/src"}
    try:
        for seed in seeds:
            sd = f"/verif/seeded/{seed}"
            sh("git checkout -- . && git clean -fdq", cwd=wt)
            rc0, out0 = sh(f"/venv/bin/python {sd}/demo.py", cwd=wt, env=env, timeout=1800)
            rca, outa = sh(f"git apply {sd}/patch.diff", cwd=wt)
            rct, outt = sh("/venv/bin/python -m pytest -q -p no:cacheprovider tests/unit 2>&1 | tail -3", cwd=wt, env=env, timeout=1800)
            rc1, out1 = sh(f"/venv/bin/python {sd}/demo.py", cwd=wt, env=env, timeout=1800)
            tests = outt.strip().split("\n")[-1]
            rec = {"seed": seed, "confirmed": {
                "patch_applies": rca == 0, "unit_tests": tests + f" with the patch (PYTHONPATH=<worktree>/src /venv/bin/python -m pytest tests/unit)",
                "demo_with_patch_exit": rc1, "demo_without_patch_exit": rc0,
                "how": "vp/seedconfirm.py (scratch worktree under /tmp, removed afterwards)"},
                "ok": rca == 0 and rc0 == 0 and rc1 != 0 and "259 passed" in tests and "failed" not in tests}
            open(out, "a").write(json.dumps(rec) + "\n")
    finally:
        sh(f"git -C /repo worktree remove --force {wt}")


if __name__ == "__main__":
    main()
