"""Development aid (NOT a registered check): runs the bodies of a property's A-sel units natively over the
precondition's solution set, in a process pool, and prints grouped failures."""
import collections, itertools, re, sys, time
from multiprocessing import Pool
sys.path[:0] = ['/verif', '/repo/src']
from vp import runner


def _work(args):
    func, kw = args
    try:
        msg = runner._load(func)(**kw)
    except Exception as e:
        import traceback
        msg = "EXC %r %s" % (e, traceback.format_exc(limit=-3).replace("\n", " / ")[-300:])
    return kw, msg


def main():
    pid, tier = sys.argv[1], (sys.argv[2] if len(sys.argv) > 2 else "quick")
    only = sys.argv[3] if len(sys.argv) > 3 else None
    mod = __import__(f"vp.props.{pid}", fromlist=["x"])
    units = [u for u in mod.plan(tier, 0) if isinstance(u, runner.Sel) and (only is None or re.search(only, u.name))]
    findings = [f for f in runner.known_findings() if f["property"] == pid]
    t = time.time()
    with Pool(16) as pool:
        for u in units:
            extra = [runner._finding_pre(f) for f in findings if f.get("harness") == u.name]
            names = list(u.params)
            doms = [runner._domain(u.params[p]) for p in names]
            inputs = []
            for combo in itertools.product(*doms):
                env = dict(zip(names, combo))
                if runner._eval_pre(list(u.pre) + extra, env):
                    inputs.append((u.func, env))
            fails = collections.Counter()
            ex = {}
            for kw, msg in pool.imap_unordered(_work, inputs, chunksize=64):
                if msg:
                    key = re.sub(r"-?\d+", "N", msg)[:int(sys.argv[4]) if len(sys.argv) > 4 else 110]
                    fails[key] += 1
                    ex.setdefault(key, (kw, msg))
            print(f"== {u.name}: {len(inputs)} inputs, {sum(fails.values())} failing, {time.time()-t:.0f}s")
            for k, v in fails.most_common(8):
                print("  ", v, k)
                print("      e.g.", ex[k][0], "::", ex[k][1][:300])


if __name__ == "__main__":
    main()
