"""C02 - equality never lies (DESIGN.md §5 C02).

Pairs (A, B) of graphs of the same class with fully specified parities: the real A == B may be True only if the brute-force
oracle (vp/lib/iso.py, public views + coordinate-derived symmetry groups) finds a structure-preserving bijection.
A is chosen by the solver; B ranges (inner finite conjunction) over the whole small-graph family of the class, over the
single-feature mutations of A and, for templates, over every other ordering / parity of the stereo unit.  Cross-class pairs
must be unequal."""
from __future__ import annotations

import functools

from vp.lib import eqfam, eqlib, fam, gl, iso, oracle, tmpl
from vp.props import C01
from vp.runner import Sel

FILES = C01.FILES
FUNCTIONS = C01.FUNCTIONS
BOUNDS = {"quick": "all pairs of 10 carbon skeletons that 1-WL cannot separate or that have many automorphisms (P4, prism, K33, hexagon, two triangles, bicyclo[1.1.1]pentane, cube, decalin, bicyclopentyl; seeded renumberings); A: every graph of the small family (universe {0,1,2}, listed restrictions) of each class; B: every member of the same family (SCRG: same atom set), every "
                   "single-feature mutation of A, the same spec in the other three classes; templates star4/lonepair/dbond/ring4/sn2: A any "
                   "ordering/parity (strided), B every ordering x parity of the same template and every single-feature mutation; regular cages: every cubic graph on 8 atoms (6), every 4-regular graph on 8 (6) and 9 atoms (16), all ordered pairs within a family x 320 seeded numberings of each",
          "thorough": "as quick with universe {0,1,2,3} for MG, full SCRG pair space, templates star5, star6 (strided), twocentre; regular cages with 1600 numberings per pair"}
OUTSIDE = ("pairs of graphs with more than 4 atoms other than template pairs; pairs containing unspecified parities (excluded by the property); "
           "pairs in which a graph is stereo-invalid (a descriptor lists an atom that is not bonded to its centre in that structure) - see known finding")
ASSUMPTIONS = ["oracle: brute-force bijection search over public views; descriptor equivalence from rotation groups of idealised figures (validated in C04)"]


@functools.lru_cache(None)
def _family(cname, k, tier):
    """all specs of the small family (native enumeration of the same precondition), with snapshot and built graph"""
    from vp import runner
    u = _small_unit(cname, k, tier, "x:y")
    names, sols = runner._solutions(u, [])
    out = []
    seen = set()
    for s in sols:
        kw = dict(zip(names, s))
        kw.pop("cls")
        spec = fam.decode(cname, k, kw)
        key = repr(spec)
        if key in seen:
            continue
        seen.add(key)
        if not eqfam.fully_specified_spec(spec):
            continue
        g = gl.build(spec)
        out.append((spec, gl.snap(g), g))
    return out


def _small_unit(cname, k, tier, func):
    ci = gl.CLS_NAMES.index(cname)
    params = {"cls": (ci, ci + 1)}
    params.update(eqfam.small_params(cname, k))
    pre = fam.sel_pre(k) + ["not xa"]
    if gl.is_stereo(cname):
        pre.append("ds in (0, 1, 2, 4, 5, 6, 7, 9)")      # fully specified decorations only
    if cname == "SCRG":
        pre.append("cs in (0, 1, 2, 3, 4, 6, 7)")
        if tier == "quick":
            pre += ["el == 0", "role in (0, 1, 2, 3)", "ds in (0, 1, 6) or cs == 0", "cs in (0, 1, 3, 7)", "ds in (0, 1, 2, 6, 9)", "p1 and p2"]
        else:
            pre += ["el == 0", "role in (0, 1, 2, 3, 4)", "ds in (0, 1, 2, 6, 9)", "ds in (0, 1, 6) or cs == 0", "cs in (0, 1, 2, 3, 7)"]
    if cname == "CRG" and tier == "quick":
        pre += ["role < 6"]
    if k == 4:
        pre += ["el < 2"]
    return Sel(name=f"pairs_{cname}", func=func, params=params, pre=pre, shard_by=["el"], timeout=1500, nontrivial="p0 and p1")


def _judge(mode, ga, sa, gb, sb, what):
    """mode eq: real => oracle; hash: real-equal => equal hashes; c16: qualifying => hashes differ"""
    try:
        r1, r2 = (ga == gb), (gb == ga)
    except Exception as e:
        return f"{what}: == raised {type(e).__name__}: {e}"
    if mode == "eq":
        if r1 or r2:
            if iso.stereo_valid(sa) and iso.stereo_valid(sb) and not iso.isomorphic(sa, sb):
                return f"{what}: compare equal (A==B {r1}, B==A {r2}) but no structure-preserving bijection exists"
        if r1 != r2:
            return f"{what}: A==B is {r1} but B==A is {r2}"
    elif mode == "hash":
        if r1 and hash(ga) != hash(gb):
            return f"{what}: equal graphs with different hashes"
    return None


def pair_body(cls, k=3, tier="quick", mode="eq", **sel):
    cname = gl.CLS_NAMES[cls]
    spec = fam.decode(cname, k, sel)
    ga = gl.build(spec)
    sa = gl.snap(ga)
    present = set(sa["atoms"])
    for (sb_spec, sb, gb) in _family(cname, k, tier):
        if cname == "SCRG" and set(sb["atoms"]) != present:
            continue
        msg = _judge(mode, ga, sa, gb, sb, f"B={_short(sb_spec)}")
        if msg:
            return msg
    if mode == "eq":
        msg = _mutation_and_class_checks(spec, ga, sa)
        if msg:
            return msg
    return None


def _short(spec):
    return {k: v for k, v in spec.items() if v and k != "cls"}


def _mutation_and_class_checks(spec, ga, sa):
    for what, m in tmpl.mutations(spec):
        if not eqfam.fully_specified_spec(m):
            continue
        try:
            gm = gl.build(m)
        except Exception:
            continue   # mutation not constructible through the API
        msg = _judge("eq", ga, sa, gm, gl.snap(gm), f"mutation [{what}]")
        if msg:
            return msg
    # other classes: never equal
    for other in gl.CLS_NAMES:
        if other == spec["cls"]:
            continue
        o = dict(spec)
        o["cls"] = other
        if not gl.is_reaction(other):
            o["bonds"] = [(a, b, None, at) for a, b, r, at in spec["bonds"]]
        try:
            go = gl.build(o)
        except Exception:
            continue
        try:
            r1, r2 = (ga == go), (go == ga)
        except Exception as e:
            return f"cross-class comparison raised {type(e).__name__}: {e}"
        if r1 or r2:
            return f"{spec['cls']} graph compares equal to {other} graph (A==B {r1}, B==A {r2})"
    return None


def pair3(**kw):
    return pair_body(k=3, tier="quick", mode="eq", **kw)


def pair3t(**kw):
    return pair_body(k=3, tier="thorough", mode="eq", **kw)


def pair4t(**kw):
    return pair_body(k=4, tier="thorough", mode="eq", **kw)


# --- templates: A vs every other ordering / parity of the same stereo unit + mutations -----------------------
def template(t, cls, **sel):
    name = C01.TNAMES[t]
    cname = gl.CLS_NAMES[cls]
    spec = eqfam.template_spec(name, cname, sel)
    if not eqfam.fully_specified_spec(spec):
        return None
    ga = gl.build(spec)
    sa = gl.snap(ga)
    params, _, _ = eqfam.TEMPLATES[name]
    alts = []
    if "order" in params:
        lo, hi = params["order"]
        for o in range(lo, hi):
            for p in (0, 1):
                alts.append(dict(sel, order=o, par=p))
    else:
        for p in (0, 1):
            for p2 in (0, 1):
                alts.append(dict(sel, par=p, par2=p2))
    for kw in alts:
        sb_spec = eqfam.template_spec(name, cname, kw)
        gb = gl.build(sb_spec)
        msg = _judge("eq", ga, sa, gb, gl.snap(gb), f"other representation {kw}")
        if msg:
            return msg
    return _mutation_and_class_checks(spec, ga, sa)


def hard(i, j, ri, rj, cls):
    """pairs of carbon skeletons that colour refinement cannot separate (prism/K33, hexagon/two triangles, decalin/bicyclopentyl, ...)"""
    cname = gl.CLS_NAMES[cls]
    ga, gb = gl.build(tmpl.skeleton(cname, i, ri)), gl.build(tmpl.skeleton(cname, j, rj))
    return _judge("eq", ga, gl.snap(ga), gb, gl.snap(gb), f"{tmpl.SKELETON_NAMES[i]}(renumbering {ri}) vs {tmpl.SKELETON_NAMES[j]}(renumbering {rj})")


CAGE_BLOCK = 40
CAGE_FAMS = [(8, 3), (8, 4), (9, 4)]   # (atoms, degree): 6, 6 and 16 isomorphism classes


def cages(f, i, j, blk, cls):
    """pairs of k-regular single-element cages (every cubic graph on 8 atoms, every 4-regular graph on 8 and on 9 atoms, one representative per isomorphism
    class, so #i ~ #j iff i == j), CAGE_BLOCK seeded numberings of each per call: on dense regular graphs colour refinement is blind and
    candidate pruning in the matcher alone decides the answer, which makes the answer depend on the numbering"""
    cname = gl.CLS_NAMES[cls]
    n, deg = CAGE_FAMS[f]
    for r in range(blk * CAGE_BLOCK, (blk + 1) * CAGE_BLOCK):
        ga, gb = gl.build(tmpl.regular_spec(cname, n, deg, i, r)), gl.build(tmpl.regular_spec(cname, n, deg, j, 7 * r + 3))
        for x, y, d in ((ga, gb, "A==B"), (gb, ga, "B==A")):
            try:
                got = (x == y)
            except Exception as e:
                return f"{deg}-regular {n}-atom cage #{i}(numbering {r}) vs #{j}(numbering {7 * r + 3}): {d} raised {type(e).__name__}: {e}"
            if got != (i == j):
                return (f"{deg}-regular {n}-atom cage #{i}(numbering {r}) vs #{j}(numbering {7 * r + 3}): {d} is {got}, but the cages are "
                        f"{'the same graph renumbered' if i == j else 'not isomorphic (distinct classes under the brute-force oracle)'}; "
                        f"bonds A {sorted(tuple(sorted(b)) for b in ga.bonds)} B {sorted(tuple(sorted(b)) for b in gb.bonds)}")
    return None


def pair_units(tier, func=None):
    units = []
    for cname in gl.CLS_NAMES:
        k = 4 if (tier == "thorough" and cname == "MG") else 3
        f = func or ("vp.props.C02:" + ("pair3" if tier == "quick" else ("pair4t" if k == 4 else "pair3t")))
        units.append(_small_unit(cname, k, tier, f))
    return units


def plan(tier, seed):
    units = pair_units(tier)
    nsk = len(tmpl.SKELETON_NAMES)
    units.append(Sel(name="hard_skeleton_pairs", func="vp.props.C02:hard",
                     params={"i": (0, nsk), "j": (0, nsk), "ri": (0, 4 if tier == "quick" else 12), "rj": (0, 4 if tier == "quick" else 12), "cls": (0, 2)},
                     pre=["cls == 0 or (ri < 2 and rj < 2)"], shard_by=[], timeout=1500, nontrivial="i != j"))
    for (n, k) in CAGE_FAMS:
        tmpl.regular_graphs(n, k)   # generated once, cached under .work for the shard processes
    units.append(Sel(name="regular_cages", func="vp.props.C02:cages",
                     params={"f": (0, 3), "i": (0, 16), "j": (0, 16), "blk": (0, 8 if tier == "quick" else 40), "cls": (0, 2)},
                     pre=["f == 2 or (i < 6 and j < 6)", "cls == 0 or (blk < 1 and f < 2)"] + (["f < 2 or blk < 3"] if tier == "quick" else ["f < 2 or blk < 16"]), shard_by=[], timeout=1500, nontrivial="i != j"))
    names = ["star4", "lonepair", "dbond", "ring4", "sn2"] + (["twocentre", "star5", "star6"] if tier == "thorough" else [])
    for (n, c, p, pr) in eqfam.template_units(names):
        params = {"t": (C01.TNAMES.index(n), C01.TNAMES.index(n) + 1), "cls": (gl.CLS_NAMES.index(c), gl.CLS_NAMES.index(c) + 1)}
        params.update(p)
        pre = list(pr) + ["par < 2"] + (["par2 < 2"] if "par2" in p else [])
        if tier == "quick":
            pre += {"star4": ["lig in (0, 1, 2)", "order % 6 == 0", "chg in (0, 2)"], "lonepair": ["lig in (0, 1)", "order % 6 == 0", "chg in (0, 1)"],
                    "dbond": ["sub in (0, 1, 4)", "order % 12 == 0", "chg in (0, 3)"], "ring4": ["chg in (0, 2)"]}.get(n, [])
        else:
            pre += {"star4": ["order % 3 == 0"], "lonepair": ["order % 3 == 0"], "dbond": ["order % 6 == 0"],
                    "star5": ["order % 24 == 0", "chg in (0, 2)"], "star6": ["order % 180 == 0", "chg in (0, 2)", "lig in (0, 1, 3)"]}.get(n, [])
        if n == "star6" and c == "SCRG":
            continue      # one octahedral SCRG instance against all orderings x parities costs minutes of CPU (the vacuity twin alone ran past its budget); SMG keeps the class
        units.append(Sel(name=f"{n}_{c}", func="vp.props.C02:template", params=params, pre=pre, shard_by=[], timeout=1500,
                         nontrivial="par == 0", min_shard=4 if n in ("star5", "star6", "twocentre") else 48))
    return units


MANIFEST = {
    "text": "Bounded model checking: z3 enumerates graph A (all small graphs of each class; every template instance); the real __eq__ is evaluated on A "
            "against every member of the same small family, every single-feature mutation (element, bond, bond role, descriptor inverted / re-ordered by a "
            "non-symmetry / removed / class changed / placeholder moved, change slot moved), every other ordering x parity of the template's stereo unit, "
            "and the same structure in the other classes; a True answer is accepted only if an independent brute-force search finds a bijection preserving "
            "elements, bonds, roles, descriptors modulo rotation groups and stereo changes.",
    "note": "Trusted: CrossHair path exhaustion, z3, the brute-force oracle (vp/lib/iso.py) and the rotation groups (vp/lib/oracle.py, tied to the code by C04).",
    "technique": "CrossHair symbolic execution with z3 (solver-enumerated bounded graphs, real __eq__ per path) against a brute-force isomorphism oracle",
}


def finding_role_invisible():
    """witness of the recorded finding (known_findings.json): two stereo reaction graphs that differ only in the role of
    bond 0-1 (formed vs fleeting) compare equal; both endpoints carry descriptors listing each other."""
    def mk(role):
        s = gl.empty_spec("SCRG")
        s["atoms"] = [(0, "C", {}), (1, "C", {}), (2, "C", {})]
        s["bonds"] = [(0, 1, role, {}), (1, 2, None, {})]
        s["astereo"] = [("Tet", (0, 1, None, None, None), 1)]
        s["achg"] = [{"formed": ("Tet", (1, 0, 2, None, None), 1)}]
        return gl.build(s)
    a, b = mk("formed"), mk("fleeting")
    if a == b:
        return "SCRG with bond 0-1 formed == SCRG with bond 0-1 fleeting (descriptors on both endpoints list each other)"
    return None
