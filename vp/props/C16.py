"""C16 - hash separates elementary differences used for de-duplication (DESIGN.md §5 C16).

Family 1: pairs of MG / SMG graphs whose atoms differ in the multiset of (element, elements of bonded neighbours).
Family 2: the two stereoisomers of a molecule with a single stereogenic unit (tetrahedral centre with four element-distinct
ligands; double bond with element-distinct substituents on each end), embedded in 0-2 extra pieces of structure.
Family 3: reaction graphs whose reactants, products or transition structures differ in that multiset; a reaction and its reverse.
Equality of the real 64-bit hashes on a qualifying pair is a violation."""
from __future__ import annotations

from collections import Counter

from vp.lib import eqfam, fam, gl, iso, tmpl
from vp.props import C01, C02
from vp.runner import Nat, Sel

FILES = ["src/stereomolgraph/algorithms/color_refine.py", "src/stereomolgraph/experimental.py", "src/stereomolgraph/graphs/mg.py",
         "src/stereomolgraph/graphs/smg.py", "src/stereomolgraph/graphs/crg.py", "src/stereomolgraph/graphs/scrg.py"]
FUNCTIONS = ["__hash__ of the four classes", "color_refine_hash_*", "morgan_generator", "stereo_morgan_generator", "_reaction_generator", "_color_refine"]
BOUNDS = {"quick": "family 1: A any MG/SMG graph over {0,1,2} (SMG with descriptors), B every family member; family 2: star4 with ligands H,F,Cl,Br / "
                   "dbond with (H,F | H,F), (H,F | Cl,Br), (H,F | H,Cl), (H,Cl | H,Br), every ordering (strided) and embedding 0..2; family 3: A any CRG/SCRG graph over {0,1,2}, "
                   "B every family member on the same atoms, plus reverse_reaction(); exchange4: every CRG on four atoms (H,F,H,F / H,H,F,Cl) with each bond absent / unchanged / formed / broken (4096 per element pattern) against every other one (hash buckets); hash, set_atom_attribute(atom_type), hash again on every family-1/3 graph",
          "thorough": "MG over {0,1,2,3}; all orderings of the stereogenic units; exchange4 with fleeting bonds (15625 graphs per pattern), SCRG class and an all-carbon pattern"}
OUTSIDE = "graphs larger than the bounds; stereo-invalid decorations (descriptor listing a non-bonded atom; known finding); accidental 64-bit collisions are treated as violations, as the property says"
ASSUMPTIONS = ["PYTHONHASHSEED fixed for the run (reaction-graph labels go through str hashing)"]


def env_multiset(bonds, atoms):
    """multiset of (element, sorted elements of bonded neighbours)"""
    nb = {a: [] for a in atoms}
    for b in bonds:
        x, y = tuple(b)
        nb[x].append(atoms[y])
        nb[y].append(atoms[x])
    return Counter((atoms[a], tuple(sorted(nb[a]))) for a in atoms)


def structures(s):
    atoms = {a: d["atom_type"] for a, d in s["atoms"].items()}
    role = {frozenset(k): v.get("reaction") for k, v in s["bonds"].items()}
    if s["cls"] in ("MolGraph", "StereoMolGraph"):
        return {"graph": env_multiset(set(role), atoms)}
    return {"reactant": env_multiset({b for b, r in role.items() if r in (None, "Change.BROKEN")}, atoms),
            "product": env_multiset({b for b, r in role.items() if r in (None, "Change.FORMED")}, atoms),
            "ts": env_multiset(set(role), atoms)}


def qualifying(sa, sb):
    ma, mb = structures(sa), structures(sb)
    return [k for k in ma if ma[k] != mb[k]]


def pairs(cls, k=3, tier="quick", **sel):
    cname = gl.CLS_NAMES[cls]
    spec = fam.decode(cname, k, sel)
    ga = gl.build(spec)
    sa = gl.snap(ga)
    ha = hash(ga)
    present = set(sa["atoms"])
    for (sb_spec, sb, gb) in C02._family(cname, k, tier):
        if cname == "SCRG" and set(sb["atoms"]) != present:
            continue
        q = qualifying(sa, sb)
        if q and hash(gb) == ha and iso.stereo_valid(sa) and iso.stereo_valid(sb):
            return f"hash collision although the {'/'.join(q)} (element, neighbour elements) multisets differ: B={C02._short(sb_spec)}"
    if gl.is_reaction(cname):
        m = structures(sa)
        if m["reactant"] != m["product"]:
            rev = ga.reverse_reaction()
            if hash(rev) == ha:
                return "reaction and its reverse have the same hash although reactant and product differ"
    # the hash follows an edit: hash, change an element through the public setter, hash again
    if present and iso.stereo_valid(sa):
        a0 = sorted(present)[0]
        ga.set_atom_attribute(a0, "atom_type", "Br")
        sb = gl.snap(ga)
        if qualifying(sa, sb) and hash(ga) == ha:
            return f"hash unchanged after set_atom_attribute({a0}, 'atom_type', 'Br') although the (element, neighbour elements) multisets changed"
    return None


def pairs3(**kw):
    return pairs(k=3, tier="quick", **kw)


def pairs4(**kw):
    return pairs(k=4, tier="thorough", **kw)


def _embed(spec, lig_atom, embed):
    """attach surrounding structure: 1: the ligand `lig_atom` becomes a methyl carbon; 2: plus a separate water fragment"""
    s = dict(spec)
    s["atoms"] = list(spec["atoms"])
    s["bonds"] = list(spec["bonds"])
    if embed >= 1:
        s["atoms"] = [(a, ("C" if a == lig_atom else el), at) for a, el, at in s["atoms"]]
        for i in (20, 21, 22):
            s["atoms"].append((i, "H", {}))
            s["bonds"].append((lig_atom, i, None, {}))
    if embed >= 2:
        s["atoms"] += [(30, "O", {}), (31, "H", {}), (32, "H", {})]
        s["bonds"] += [(30, 31, None, {}), (30, 32, None, {})]
    return s


def unit(t, cls, embed, **sel):
    """the two stereoisomers of a single stereogenic unit must hash differently"""
    name = C01.TNAMES[t]
    cname = gl.CLS_NAMES[cls]
    if name == "star4":
        a = _embed(eqfam.template_spec(name, cname, dict(sel, kind=1, par=0, chg=0)), 4, embed)
        b = _embed(eqfam.template_spec(name, cname, dict(sel, kind=1, par=1, chg=0)), 4, embed)
    else:
        a = _embed(eqfam.template_spec(name, cname, dict(sel, kind=0, par=0, chg=0)), 5 if sel["sub"] == 1 else 1, embed if sel["sub"] == 1 else 0)
        if not iso.stereo_valid(gl.snap(gl.build(a))):
            return None      # orderings that list a substituent on the wrong end are not stereogenic units
        b = dict(a)
        k, at, p = a["bstereo"][0]
        # the other isomer: exchange the two substituents on one end
        idx = [at.index(x) for x in (4, 5)]
        at2 = list(at)
        at2[idx[0]], at2[idx[1]] = at2[idx[1]], at2[idx[0]]
        b["bstereo"] = [(k, tuple(at2), p)]
    ga, gb = gl.build(a), gl.build(b)
    if ga == gb:
        return f"harness error: the two stereoisomers compare equal ({a.get('astereo') or a.get('bstereo')})"
    if hash(ga) == hash(gb):
        return f"the two stereoisomers have the same hash: {a.get('astereo') or a.get('bstereo')} vs {b.get('astereo') or b.get('bstereo')}"
    # and also after renaming / re-expression of one of them
    for m in tmpl.renamings(tmpl.atoms_of(b), 0, cap=4)[-2:]:
        if hash(gb.relabel_atoms(dict(m))) == hash(ga):
            return "stereoisomers collide after renaming one of them"
    return None


X4_ELEMENTS = [("H", "F", "H", "F"), ("H", "H", "F", "Cl"), ("C", "C", "C", "C")]
X4_ROLES = [None, "plain", "formed", "broken", "fleeting"]
X4_PAIRS = [(0, 1), (0, 2), (0, 3), (1, 2), (1, 3), (2, 3)]
_X4 = {}


def _x4_graph(cname, el, roles):
    spec = gl.empty_spec(cname)
    spec["atoms"] = [(i, X4_ELEMENTS[el][i], {}) for i in range(4)]
    spec["bonds"] = [(a, b, None if r == "plain" else r, {}) for (a, b), r in zip(X4_PAIRS, roles) if r is not None]
    return gl.build(spec)


def _x4_table(cname, el, nroles):
    """hash -> [(roles, structures)] over every four-atom reaction graph with the given elements (computed once per process)"""
    key = (cname, el, nroles)
    if key not in _X4:
        import itertools
        t = {}
        for roles in itertools.product(X4_ROLES[:nroles], repeat=6):
            g = _x4_graph(cname, el, roles)
            t.setdefault(hash(g), []).append((roles, structures(gl.snap(g))))
        _X4[key] = t
    return _X4[key]


def exchange4(cls, el, nroles, r01, r02, r03, r12, r13, r23):
    """A: any reaction graph on four atoms (every bond absent / unchanged / formed / broken; thorough also fleeting), B: every other such graph:
    equal hashes only if reactant, product and transition structure agree in their (element, neighbour elements) multisets.  Contains the
    degenerate exchanges (two H-F swapping H) whose reactant and product coincide with those of 'nothing happens'."""
    cname = gl.CLS_NAMES[cls]
    roles = tuple(X4_ROLES[r] for r in (r01, r02, r03, r12, r13, r23))
    ga = _x4_graph(cname, el, roles)
    ma = structures(gl.snap(ga))
    for rb, mb in _x4_table(cname, el, nroles).get(hash(ga), []):
        q = [k for k in ma if ma[k] != mb[k]]
        if q:
            return (f"hash collision although the {'/'.join(q)} (element, neighbour elements) multisets differ: elements {X4_ELEMENTS[el]}, "
                    f"A bonds {dict(zip(X4_PAIRS, roles))} B bonds {dict(zip(X4_PAIRS, rb))}")
    # the hash follows an edit: hash, change the element of atom 0 through the public setter, hash again
    ha = hash(ga)
    ga.set_atom_attribute(0, "atom_type", "Br")
    mb = structures(gl.snap(ga))
    if any(ma[k] != mb[k] for k in ma) and hash(ga) == ha:
        return (f"hash unchanged after set_atom_attribute(0, 'atom_type', 'Br') although the (element, neighbour elements) multisets changed: "
                f"elements {X4_ELEMENTS[el]}, bonds {dict(zip(X4_PAIRS, roles))}")
    return None


def plan(tier, seed):
    units = []
    nr = 4 if tier == "quick" else 5
    units.append(Sel(name="exchange4", func="vp.props.C16:exchange4",
                     params={"cls": [2, 3], "el": (0, len(X4_ELEMENTS)), "nroles": (nr, nr + 1), "r01": (0, nr), "r02": (0, nr), "r03": (0, nr), "r12": (0, nr),
                             "r13": (0, nr), "r23": (0, nr)},
                     pre=["cls == 2", "el < 2"] if tier == "quick" else ["cls == 2 or el == 0"], shard_by=["el", "cls"], timeout=1500,
                     nontrivial="r01 > 1 or r02 > 1 or r03 > 1"))
    for cname in gl.CLS_NAMES:
        k = 4 if (tier == "thorough" and cname == "MG") else 3
        u = C02._small_unit(cname, k, "quick" if k == 3 else "thorough", f"vp.props.C16:pairs{k}")
        u.name = f"fam{'3' if gl.is_reaction(cname) else '1'}_{cname}"
        # C16 speaks about hashes of arbitrary graphs: unspecified parities are allowed but the shared family list is fully specified
        units.append(u)
    for n, classes in (("star4", ("SMG", "SCRG")), ("dbond", ("SMG", "SCRG"))):
        for c in classes:
            params = {"t": (C01.TNAMES.index(n), C01.TNAMES.index(n) + 1), "cls": (gl.CLS_NAMES.index(c), gl.CLS_NAMES.index(c) + 1), "embed": (0, 3)}
            if n == "star4":
                params.update({"lig": (0, 1), "order": (0, 24)})
                pre = ["order % 2 == 0"] if tier == "quick" else []
            else:
                params.update({"sub": [0, 1, 6, 7], "order": (0, 48)})
                pre = ["order % 4 == 0"] if tier == "quick" else []
            units.append(Sel(name=f"fam2_{n}_{c}", func="vp.props.C16:unit", params=params, pre=pre, shard_by=[], timeout=1500, nontrivial="embed > 0"))
    units.append(Nat(name="mixer_order_sensitive", func="vp.shadow.hashlemmas:run_c16", timeout=600))
    return units


MANIFEST = {
    "text": "Bounded model checking: z3 enumerates graph A (every small graph of each class; every ordering / embedding of a single stereogenic unit); "
            "the real hash of A is compared with the hash of every family member B whose (element, neighbour elements) multiset differs (for reaction graphs: "
            "whose reactant, product or transition-structure multiset differs), with reverse_reaction(), and with the other stereoisomer of the unit; equal "
            "64-bit hashes on a qualifying pair are reported. z3 additionally shows on the real kernels that the tuple mixer is order sensitive.",
    "note": "Trusted: CrossHair path exhaustion, z3; qualifying predicate computed from public views. Accidental collisions count as violations (property text).",
    "technique": "CrossHair symbolic execution with z3 (solver-enumerated bounded graphs, real hash per path), pairwise inequality on qualifying pairs",
}


def finding_invalid_decoration():
    """witness of the recorded finding: the hash does not see the bonds of a centre whose descriptor lists non-bonded atoms"""
    def mk(bonds):
        s = gl.empty_spec("SMG")
        s["atoms"] = [(0, "C", {}), (1, "C", {}), (2, "C", {})]
        s["bonds"] = [(a, b, None, {}) for a, b in bonds]
        s["astereo"] = [("Tet", (0, 1, 2, None, None), 1)]
        return gl.build(s)
    a, b = mk([(0, 1), (0, 2)]), mk([(1, 2)])
    if hash(a) == hash(b):
        return "StereoMolGraph C3 + Tet(0,1,2,None,None): same hash with bonds {0-1,0-2} and with bonds {1-2}"
    return None
