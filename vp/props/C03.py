"""C03 - hash agrees with equality and is canonical (DESIGN.md §5 C03).

(i) same exploration as C01 with hash(g) == hash(variant); additionally, for every pair of the C02 pair space that the real
__eq__ declares equal (fully specified parities) the hashes must agree.  (ii) engine B lemmas on the real hashing kernels
(vp/shadow/hashlemmas.py): order-independence of numpy_int_multiset_hash for symbolic 64-bit words.
Process independence of the hash (PYTHONHASHSEED) is outside this technique (DESIGN.md §6)."""
from __future__ import annotations

from vp.lib import eqfam, eqlib, fam, gl
from vp.props import C01
from vp.runner import Nat, Sel

FILES = C01.FILES
FUNCTIONS = ["MolGraph.__hash__", "StereoMolGraph.__hash__", "CondensedReactionGraph.__hash__", "StereoCondensedReactionGraph.__hash__",
             "color_refine_hash_*", "morgan_generator", "stereo_morgan_generator", "_reaction_generator", "numpy_int_tuple_hash",
             "numpy_int_multiset_hash"]
BOUNDS = dict(C01.BOUNDS)
BOUNDS = {k: v + "; kernel lemma: multiset hash of n <= 6 symbolic 64-bit words under all transpositions" for k, v in BOUNDS.items()}
OUTSIDE = C01.OUTSIDE + "; hash equality across interpreter processes with different string-hash seeds (C-level str hashing, not encodable)"
ASSUMPTIONS = ["checks run with PYTHONHASHSEED=0; independence from the seed is not decided"]


def _check(spec, gi, flip, seed=0):
    g = gl.build(spec)
    try:
        h0 = hash(g)
        if hash(g) != h0:
            return "hash(g) not deterministic"
    except Exception as e:
        return f"hash(g) raised {type(e).__name__}: {e}"
    vs = []
    try:
        for v in eqlib.variants(spec, gi, flip, seed):
            vs.append(v)
    except Exception as e:
        return f"building the variant after [{vs[-1][0] if vs else 'none'}] through the public API raised {type(e).__name__}: {e}"
    for what, h in vs:
        try:
            h1 = hash(h)
        except Exception as e:
            return f"hash of variant [{what}] raised {type(e).__name__}: {e}"
        if h1 != h0:
            return f"variant [{what}]: hash {h1} != {h0}"
    return None


def small3(cls, gi, flip, **sel):
    return _check(fam.decode(gl.CLS_NAMES[cls], 3, sel), gi, flip)


def small4(cls, gi, flip, **sel):
    return _check(fam.decode(gl.CLS_NAMES[cls], 4, sel), gi, flip)


def template(t, cls, gi, flip, **sel):
    return _check(eqfam.template_spec(C01.TNAMES[t], gl.CLS_NAMES[cls], sel), gi, flip)


def plan(tier, seed):
    units = C01.plan(tier, seed, func_mod="vp.props.C03")
    try:
        from vp.props import C02
        units += C02.pair_units(tier, func="vp.props.C03:pair_hash")
    except ImportError:
        pass
    units.append(Nat(name="hash_kernel_lemmas", func="vp.shadow.hashlemmas:run", timeout=900))
    return units


def pair_hash(**kw):
    from vp.props import C02
    return C02.pair_body(mode="hash", **kw)


MANIFEST = {
    "text": "Bounded model checking: same solver-enumerated space as C01 (small graphs of all four classes, templates for every descriptor class) - the hash "
            "of every renamed / re-ordered / re-expressed variant (incl. mirrored ordering with opposite parity) must equal the hash of the original; over "
            "the C02 pair space, pairs the real __eq__ declares equal must have equal hashes. z3 additionally proves, on the real numpy kernels executed on "
            "symbolic 64-bit words, that the multiset hash is invariant under reordering.",
    "note": "Trusted: as C01; the EUF abstraction of the 64-bit mixer in the kernel lemma. NOT covered: the PYTHONHASHSEED part of the property (outside the technique).",
    "technique": "CrossHair symbolic execution with z3 (metamorphic hash equality over solver-enumerated graphs) + z3 proofs on shadow-executed numpy kernels",
}
