"""C09 - any editing history leaves a coherent graph (DESIGN.md §5 C09).

Engine A-sel, inductive step: the solver picks class, pre-state (family F(k)), representation flavour
and operation kind; the body runs every argument instantiation of that kind over U_k ∪ {absent} on a
freshly built pre-state and compares all public views with each other (`coherent`) and with the plain
reference model."""
from __future__ import annotations

from vp.lib import fam, gl
from vp.runner import Sel

FILES = ["src/stereomolgraph/graphs/mg.py", "src/stereomolgraph/graphs/smg.py", "src/stereomolgraph/graphs/crg.py",
         "src/stereomolgraph/graphs/scrg.py"]
FUNCTIONS = ["MolGraph.* (every public method)", "StereoMolGraph.*", "CondensedReactionGraph.*", "StereoCondensedReactionGraph.*"]
BOUNDS = {"quick": "identifier universe {0,1,2} + one absent id; solver-enumerated pre-states: all graphs on it (presence x bond bits), "
                   "extra attributes, role/descriptor/change decorations (listed restrictions); per pre-state an inner finite conjunction over "
                   "4 representation flavours (fresh, relabelled in place, composed, subgraph) x every public operation x every argument tuple over the universe; one step from every family member; insertion_order: 4 atoms inserted in all 24 orders (identifier sets 0..3 and non-contiguous), all 64 bond sets, then remove + re-add of the second atom: positional views follow `atoms`",
          "thorough": "same with universe {0,1,2,3} for MG/CRG, 8 flavours and all decorations for SMG/SCRG; insertion_order with three identifier sets for all classes"}
OUTSIDE = "universes > 4 identifiers; attribute values other than the sampled ones; histories whose states leave the family (closure not yet machine-checked)"
ASSUMPTIONS = ["pre-states are built through the public API by a canonical recipe followed by one representation-changing derivation (flavour)",
               "outcomes the property does not fix (re-adding an existing atom/bond, deleting an unset attribute/descriptor) accept either 'raises and unchanged' or the documented effect"]


def _check_op(cname, spec, fl, op, k):
    g = fam.flavour(gl.build(spec), fl)
    m = gl.model_from_spec(spec)
    return check_op_on(g, m, op, cname, f"pre-state {fam.FLAVOURS[fl]}")


def check_op_on(g, m, op, cname, what="pre-state"):
    """g: real graph, m: reference model claimed to describe it; run `op` on both and compare."""
    s0 = gl.snap(g)
    d = gl.diff(s0, m.snap())
    if d:
        return f"{what} disagrees with model: {d}"
    c = gl.coherent(g)
    if c:
        return f"{what} incoherent: {c}"
    raised = None
    try:
        op.real(g)
    except Exception as e:
        raised = e
    try:
        s1 = gl.snap(g)
    except Exception as e:
        return f"{what}, after {op}: views unreadable: {type(e).__name__}: {e}"
    if op.model is None:  # read-only query
        d = gl.diff(s0, s1)
        if d:
            return f"{what}: read-only {op} changed a view ({'raised ' + type(raised).__name__ if raised else 'returned'}): {d}"
    else:
        expect, m2 = fam.apply_model(m, op)
        if expect == "reject":
            if raised is None:
                d = gl.diff(s0, s1)
                return f"{what}: ill-formed {op} was accepted" + (f" and changed: {d}" if d else " (no exception)")
            d = gl.diff(s0, s1)
            if d:
                return f"{what}: rejected {op} ({type(raised).__name__}) changed a view: {d}"
        elif expect == "either":
            d = gl.diff(s0, s1)
            if d:
                return f"{what}: {op} (no effect expected, raised={type(raised).__name__ if raised else None}) changed a view: {d}"
        else:
            if raised is not None:
                d = gl.diff(s0, s1)
                return f"{what}: well-formed {op} raised {type(raised).__name__}: {raised}" + (f" and changed: {d}" if d else "")
            exp = m2.snap()
            d = gl.diff(s1, exp)
            if d:
                return f"{what}, after {op}: {d}"
    c = gl.coherent(g)
    if c:
        return f"{what}, after {op} ({'raised ' + type(raised).__name__ if raised else 'ok'}): {c}"
    return None


def step(cls, k=3, which="mut", nflav=3, **sel):
    """One solver-chosen pre-state; inner finite conjunction over flavours x op kinds x argument tuples."""
    cname = gl.CLS_NAMES[cls]
    unc = fam.uncovered_methods(cname)
    if unc:
        return f"public methods without a model: {unc}"
    spec = fam.decode(cname, k, sel)
    for kind in fam.kinds_for(cname, which):
        for op in fam.ops_of_kind(cname, kind, k):
            for fl in range(nflav):
                msg = _check_op(cname, spec, fl, op, k)
                if msg:
                    return msg
    return None


def step_mut3(**kw):
    return step(k=3, which="mut", nflav=4, **kw)


def step_qry3(**kw):
    return step(k=3, which="qry", nflav=3, **kw)


def step_mut3t(**kw):
    return step(k=3, which="mut", nflav=6, **kw)


def step_qry3t(**kw):
    return step(k=3, which="qry", nflav=4, **kw)


def step_mut4(**kw):
    return step(k=4, which="mut", nflav=5, **kw)


def step_qry4(**kw):
    return step(k=4, which="qry", nflav=4, **kw)


def _unit(name, func, cls, k, restrict=None, shard_by=("p0", "p1", "p2")):
    cname = gl.CLS_NAMES[cls]
    params = {"cls": (cls, cls + 1)}
    params.update(fam.sel_params(k, gl.is_stereo(cname), gl.is_reaction(cname), cname == "SCRG"))
    pre = fam.sel_pre(k)
    if restrict:
        pre += restrict
    return Sel(name=name, func=f"vp.props.C09:{func}", params=params, pre=pre, shard_by=list(shard_by), timeout=1200,
               nontrivial="p0 or p1 or p2")


ORDER_IDS = [(0, 1, 2, 3), (0, 2, 5, 3), (1, 2, 3, 4)]


def insertion_order(cls, o, ids, b01, b02, b03, b12, b13, b23):
    """four atoms inserted in every order (identifier sets 0..3, non-contiguous, not starting at 0), every bond set: the positional views
    (connectivity_matrix, atom_types, bond_orders-free views) must follow the order of `atoms`, whatever the identifiers are"""
    import itertools
    cname = gl.CLS_NAMES[cls]
    g = gl.CLS[cname]()
    idv = ORDER_IDS[ids]
    perm = list(itertools.permutations(range(4)))[o]
    els = ("C", "H", "O", "N")
    for i in perm:
        g.add_atom(idv[i], els[i])
    bits = {(0, 1): b01, (0, 2): b02, (0, 3): b03, (1, 2): b12, (1, 3): b13, (2, 3): b23}
    for (i, j), on in bits.items():
        if on:
            g.add_bond(idv[j], idv[i])
    msg = gl.coherent(g)
    if msg:
        return f"atoms inserted as {[idv[i] for i in perm]}, bonds {[(idv[i], idv[j]) for (i, j), on in bits.items() if on]}: {msg}"
    if list(g.atoms) != [idv[i] for i in perm]:
        return f"atoms {list(g.atoms)} are not in insertion order {[idv[i] for i in perm]}"
    # remove the second-inserted atom and re-insert it: it must now come last in every positional view
    a = idv[perm[1]]
    g.remove_atom(a)
    g.add_atom(a, "F")
    msg = gl.coherent(g)
    if msg:
        return f"after remove_atom({a}) + add_atom({a}) on insertion order {[idv[i] for i in perm]}: {msg}"
    return None


def plan(tier, seed):
    units = []
    units.append(Sel(name="insertion_order", func="vp.props.C09:insertion_order",
                     params={"cls": (0, 4), "o": (0, 24), "ids": (0, 3), "b01": "bool", "b02": "bool", "b03": "bool", "b12": "bool", "b13": "bool", "b23": "bool"},
                     pre=["ids < 2", "cls < 2 or (ids == 0 and o % 3 == 0)"] if tier == "quick" else [], shard_by=[], timeout=1200, nontrivial="o > 0"))
    if tier == "quick":
        for cls in range(4):
            cname = gl.CLS_NAMES[cls]
            restrict = ["el == 0", "not xa or (p0 and p1 and b01)"]
            if gl.is_reaction(cname):
                restrict.append("role < 4")
            if gl.is_stereo(cname):
                restrict.append("ds in (0, 1, 3, 5, 6, 8, 9, 10)")
            if cname == "SCRG":
                restrict.append("cs in (0, 3, 5, 7)")
                restrict.append("ds in (0, 8) or cs == 0")
                restrict.append("role in (0, 3) or (ds == 0 and cs == 0)")
            units.append(_unit(f"mut_{cname}", "step_mut3", cls, 3, restrict))
            units.append(_unit(f"qry_{cname}", "step_qry3", cls, 3, restrict + ["not xa"]))
    else:
        for cls in range(4):
            cname = gl.CLS_NAMES[cls]
            k = 4 if cname in ("MG", "CRG") else 3
            f = "4" if k == 4 else "3t"
            restrict = ["el == 0 or (not xa)"] if k == 4 else []
            if cname == "CRG":
                restrict.append("role < 5")
                restrict.append("el == 0")
                restrict.append("not xa or (p0 and p1 and b01)")
            if cname == "SCRG":
                restrict.append("cs in (0, 3, 5, 7)")
                restrict.append("el == 0 or not xa")
                restrict.append("ds in (0, 1, 8, 9) or cs == 0")
                restrict.append("role in (0, 3, 6) or (ds == 0 and cs == 0)")
                restrict.append("el == 0 or (ds == 0 and cs == 0)")
            sb = ("p0", "p1", "p2", "p3") if k == 4 else ("p0", "p1", "p2")
            if gl.is_stereo(cname):
                sb = sb + ("ds",)
            units.append(_unit(f"mut_{cname}", "step_mut" + f, cls, k, restrict, sb))
            units.append(_unit(f"qry_{cname}", "step_qry" + f, cls, k, restrict, sb))
    return units

MANIFEST = {
    "text": "Bounded model checking of the editing API: CrossHair/z3 enumerate every pre-state of a 3-identifier (thorough: 4) universe for all four "
            "graph classes and certify exhaustion; from each pre-state every public operation with every argument tuple is executed on the real "
            "classes and all public views are compared with each other and with a plain reference model. One step from an arbitrary family member "
            "covers histories of any length inside the family; sizes beyond the universe are outside the claim.",
    "note": "Trusted: CrossHair's path exhaustion verdict, z3, the reference model in vp/lib/gl.py (reading rules in DESIGN.md §5). Pre-states are built "
            "through the public API (canonical recipe + one representation-changing derivation). Attribute values are sampled.",
    "technique": "CrossHair symbolic execution with z3 (solver-enumerated bounded pre-states, real code per path) against a reference model",
}
