"""C17 - subgraph, compose and components form a consistent algebra (DESIGN.md §5 C17).

Solver-chosen graph and subset mask; inner conjunction over iterable kinds (list, set, tuple, generator, dict-keys
view) and covers (components, overlapping pieces)."""
from __future__ import annotations

import itertools

from vp.lib import fam, gl
from vp.props import C09
from vp.runner import Sel

FILES = ["src/stereomolgraph/graphs/mg.py", "src/stereomolgraph/graphs/smg.py", "src/stereomolgraph/graphs/scrg.py"]
FUNCTIONS = ["MolGraph.subgraph", "StereoMolGraph.subgraph", "MolGraph.connected_components", "MolGraph.node_connected_component",
             "MolGraph.compose", "StereoMolGraph.compose", "StereoCondensedReactionGraph.compose"]
BOUNDS = {"quick": "graphs: solver-enumerated family over universe {0,1,2} (C09 quick restrictions) x every subset mask; iterable kinds list/set/tuple/"
                   "generator/dict-keys; covers: components, all 2-piece overlapping covers; composition edited (attribute, single stereo-change entries, a descriptor) and the same pieces composed again; connected_components before and after an in-place relabel",
          "thorough": "all decorations; universe {0,1,2,3} for MG/CRG"}
OUTSIDE = "subsets naming identifiers that are not atoms of the graph (undefined); universes > 4 ids"
ASSUMPTIONS = ["a None placeholder is not an atom: a descriptor whose real atoms all lie in S belongs to subgraph(S)",
               "'composing the component subgraphs reproduces the graph' is checked for graphs whose descriptors and stereo changes each lie inside one component "
               "(a descriptor spanning two components cannot belong to any component subgraph by the property's own definition of subgraph)"]


def induced(ms, S):
    """Induced restriction of a model snapshot on atom set S -> (snapshot-with-placeholder-descriptors-kept, -dropped)."""
    S = set(S)

    def inside(d, strict):
        atoms = [x for x in d[1] if x is not None]
        if strict and any(x is None for x in d[1]):
            return False
        return all(x in S for x in atoms)

    outs = []
    for strict in (False, True):
        s = {"cls": ms["cls"], "nbr_extra_keys": []}
        s["atoms"] = {a: dict(v) for a, v in ms["atoms"].items() if a in S}
        s["bonds"] = {b: dict(v) for b, v in ms["bonds"].items() if set(b) <= S}
        s["nbrs"] = {a: {x for x in ms["nbrs"][a] if x in S} for a in s["atoms"]}
        if "astereo" in ms:
            s["astereo"] = {a: d for a, d in ms["astereo"].items() if a in S and inside(d, strict)}
            s["bstereo"] = {b: d for b, d in ms["bstereo"].items() if set(b) <= S and inside(d, strict)}
        if "achg" in ms:
            s["achg"] = {a: {c: d for c, d in cd.items() if inside(d, strict)} for a, cd in ms["achg"].items() if a in S}
            s["achg"] = {a: cd for a, cd in s["achg"].items() if cd}
            s["bchg"] = {b: {c: d for c, d in cd.items() if inside(d, strict)} for b, cd in ms["bchg"].items() if set(b) <= S}
            s["bchg"] = {b: cd for b, cd in s["bchg"].items() if cd}
        outs.append(s)
    return outs


def _iterables(S):
    S = list(S)
    yield "list", lambda: list(S)
    yield "reversed_list", lambda: list(reversed(S))
    yield "set", lambda: set(S)
    yield "tuple", lambda: tuple(S)
    yield "generator", lambda: (a for a in S)
    yield "iter", lambda: iter(S)
    yield "dict_keys", lambda: {a: None for a in S}.keys()
    yield "frozenset", lambda: frozenset(S)


def _union(snaps):
    """labelled union, later wins"""
    out = None
    for s in snaps:
        if out is None:
            out = {k: (dict(v) if isinstance(v, dict) else list(v) if isinstance(v, list) else v) for k, v in s.items()}
            out["nbrs"] = {a: set(v) for a, v in s["nbrs"].items()}
            continue
        for key in ("atoms", "bonds", "astereo", "bstereo", "achg", "bchg"):
            if key in s:
                out.setdefault(key, {}).update(s[key])
        for a, v in s["nbrs"].items():
            out["nbrs"].setdefault(a, set()).update(v)
    # neighbour sets follow from the bonds of the union
    out["nbrs"] = {a: {next(iter(set(b) - {a})) for b in out["bonds"] if a in b} for a in out["atoms"]}
    return out


def step(cls, k=3, **sel):
    cname = gl.CLS_NAMES[cls]
    mask = [sel.pop(f"s{i}") for i in range(k)]
    spec = fam.decode(cname, k, sel)
    present = [a for a, _, _ in spec["atoms"]]
    S = [a for a in present if mask[a]]
    model = gl.model_from_spec(spec)
    ms = model.snap()
    keep, drop = induced(ms, S)
    # ---- subgraph -------------------------------------------------------------------------------
    for name, mk in _iterables(S):
        g = gl.build(spec)
        try:
            sub = g.subgraph(mk())
        except Exception as e:
            return f"subgraph({name} {S}) raised {type(e).__name__}: {e}"
        if type(sub) is not type(g):
            return f"subgraph returned a {type(sub).__name__}"
        ss = gl.snap(sub)
        if gl.diff(ss, keep):
            return f"subgraph({name} {S}) is not the induced subgraph: {gl.diff(ss, keep)}"
        c = gl.coherent(sub)
        if c:
            return f"subgraph({name} {S}) incoherent: {c}"
        d = gl.diff(gl.snap(g), ms)
        if d:
            return f"subgraph({name} {S}) changed the source: {d}"
    # ---- components -----------------------------------------------------------------------------
    g = gl.build(spec)
    comps = g.connected_components()
    exp = gl._components(set(ms["atoms"]), {frozenset(b) for b in ms["bonds"]})
    if sorted(map(sorted, comps)) != sorted(map(sorted, exp)):
        return f"connected_components {comps} != {exp}"
    if sum(len(c) for c in comps) != len(present) or set().union(*comps) != set(present) if comps else bool(present):
        return "components do not partition the atoms"
    # ---- compose of component subgraphs reproduces the graph ----------------------------------------
    def within_one_component(d):
        atoms = {x for x in d[1] if x is not None}
        return any(atoms <= c for c in exp)
    descs = list(ms.get("astereo", {}).values()) + list(ms.get("bstereo", {}).values())
    for cd in list(ms.get("achg", {}).values()) + list(ms.get("bchg", {}).values()):
        descs += list(cd.values())
    if all(within_one_component(d) for d in descs):
        for name, wrap in (("list", list), ("generator", lambda xs: (x for x in xs)), ("tuple", tuple)):
            g = gl.build(spec)
            pieces = [g.subgraph(sorted(c)) for c in comps]
            try:
                comp = type(g).compose(wrap(pieces))
            except Exception as e:
                return f"compose({name} of component subgraphs) raised {type(e).__name__}: {e}"
            d = gl.diff(gl.snap(comp), ms) if present else None
            if present and d:
                return f"compose({name} of component subgraphs) != graph: {d}"
            if present:
                c = gl.coherent(comp)
                if c:
                    return f"composed graph incoherent: {c}"
            if present and name == "list":
                # the composition is edited (single entries deleted, an attribute set); the pieces must be unaffected: composing them again still gives the graph
                try:
                    comp.set_atom_attribute(present[0], "mark", "edited")
                    if cname == "SCRG":
                        for a, cd in list(comp.atom_stereo_changes.items()):
                            for ch in [c_ for c_, d_ in cd.items() if d_ is not None][:1]:
                                comp.delete_atom_stereo_change(a, ch)
                        for b, cd in list(comp.bond_stereo_changes.items()):
                            for ch in [c_ for c_, d_ in cd.items() if d_ is not None][:1]:
                                comp.delete_bond_stereo_change(b, ch)
                    if gl.is_stereo(cname):
                        for a in list(comp.atom_stereo)[:1]:
                            comp.delete_atom_stereo(a)
                    again = type(g).compose(list(pieces))
                except Exception as e:
                    return f"editing the composition / composing the pieces again raised {type(e).__name__}: {e}"
                d = gl.diff(gl.snap(again), ms)
                if d:
                    return f"after editing the composed graph, composing the same component subgraphs again != graph: {d}"
    # ---- components of a graph that was relabelled in place (after components had been asked for once) --------------
    if present:
        g = gl.build(spec)
        g.connected_components()
        ren = {a: (a + 10 if isinstance(a, int) else a) for a in present}
        r = g.relabel_atoms(dict(ren), copy=False)
        g = g if r is None else r
        comps2 = g.connected_components()
        exp2 = [{ren[a] for a in c} for c in exp]
        if sorted(map(sorted, comps2)) != sorted(map(sorted, exp2)):
            return f"connected_components after relabel_atoms({ren}, copy=False): {comps2}, expected {exp2}"
        for a in g.atoms:
            if not any(a in c and set(g.node_connected_component(a)) == set(c) for c in comps2):
                return f"node_connected_component({a}) disagrees with connected_components {comps2} after an in-place relabel"
    # ---- overlapping covers: labelled union, later wins -----------------------------------------------
    T = [a for a in present if a not in S or a == (S[0] if S else None)]   # complement plus one shared atom
    for order in ((S, T), (T, S)):
        g = gl.build(spec)
        p1, p2 = g.subgraph(list(order[0])), g.subgraph(list(order[1]))
        # make the overlap carry *different* attributes so that "later wins" is observable
        shared = [a for a in order[0] if a in order[1]]
        for a in shared:
            p2.set_atom_attribute(a, "mark", "second")
            p1.set_atom_attribute(a, "mark", "first")
        s1, s2 = gl.snap(p1), gl.snap(p2)
        for name, wrap in (("list", list), ("generator", lambda xs: (x for x in xs))):
            try:
                comp = type(g).compose(wrap([p1, p2]))
            except Exception as e:
                return f"compose({name} of overlapping pieces) raised {type(e).__name__}: {e}"
            expu = _union([s1, s2])
            d = gl.diff(gl.snap(comp), expu)
            if d:
                return f"compose([{order[0]},{order[1]}] as {name}) is not the labelled union (later wins): {d}"
            c = gl.coherent(comp)
            if c:
                return f"compose of overlapping pieces incoherent: {c}"
            if gl.diff(gl.snap(p1), s1) or gl.diff(gl.snap(p2), s2):
                return "compose changed an argument"
    return None


def template(t, cls, mask, **sel):
    """template graphs (real stereo units, SN2 stereo reaction) x subset mask over their atoms"""
    from vp.lib import eqfam
    from vp.props import C01
    spec = eqfam.template_spec(C01.TNAMES[t], gl.CLS_NAMES[cls], sel)
    atoms = [a for a, _, _ in spec["atoms"]]
    S = [a for i, a in enumerate(atoms) if mask >> i & 1]
    ms = gl.model_from_spec(spec).snap()
    keep, _ = induced(ms, S)
    for name, mk in list(_iterables(S))[:5]:
        g = gl.build(spec)
        try:
            sub = g.subgraph(mk())
        except Exception as e:
            return f"subgraph({name} {S}) raised {type(e).__name__}: {e}"
        d = gl.diff(gl.snap(sub), keep)
        if d:
            return f"subgraph({name} {S}) is not the induced subgraph: {d}"
        if gl.diff(gl.snap(g), ms):
            return "subgraph changed the source"
    # complement pieces composed back (overlap on the centre): labelled union
    T = [a for a in atoms if a not in S] + S[:1]
    g = gl.build(spec)
    p1, p2 = g.subgraph(list(S)), g.subgraph(list(T))
    comp = type(g).compose(x for x in (p1, p2))
    d = gl.diff(gl.snap(comp), _union([gl.snap(p1), gl.snap(p2)]))
    if d:
        return f"compose of {S} and {T} is not the labelled union: {d}"
    return gl.coherent(comp)


def step3(**kw):
    return step(k=3, **kw)


def step4(**kw):
    return step(k=4, **kw)


def plan(tier, seed):
    units = []
    for u in C09.plan(tier, seed):
        if not u.name.startswith("mut_"):
            continue
        k = 4 if "p3" in u.params else 3
        params = dict(u.params)
        for i in range(k):
            params[f"s{i}"] = "bool"
        pre = list(u.pre) + [f"p{i} or not s{i}" for i in range(k)]
        units.append(Sel(name="algebra_" + u.name[4:], func=f"vp.props.C17:step{k}", params=params, pre=pre, shard_by=u.shard_by,
                         timeout=u.timeout, nontrivial="(s0 or s1 or s2) and (b01 or b02 or b12)"))
    from vp.lib import eqfam
    from vp.props import C01
    for (n, c, p, pr) in eqfam.template_units(["star4", "sn2", "dbond"], classes=("SMG", "SCRG")):
        natoms = {"star4": 5, "sn2": 6, "dbond": 6}[n]
        params = {"t": (C01.TNAMES.index(n), C01.TNAMES.index(n) + 1), "cls": (gl.CLS_NAMES.index(c), gl.CLS_NAMES.index(c) + 1), "mask": (0, 1 << natoms)}
        params.update(p)
        pre = list(pr) + {"star4": ["lig == 0", "kind == 1", "order in (0, 7)", "par == 0", "chg in (0, 2)"], "sn2": ["variant == 0", "par == 0", "fl in (0, 1)"],
                          "dbond": ["sub in (0, 4)", "kind == 0", "order in (0, 5)", "par == 0", "chg in (0, 3)"]}[n]
        units.append(Sel(name=f"template_{n}_{c}", func="vp.props.C17:template", params=params, pre=pre, shard_by=[], timeout=1200, nontrivial="mask > 0"))
    return units


MANIFEST = {
    "text": "Bounded model checking: z3 enumerates every graph of the family (all four classes, descriptors and stereo changes crossing the cut) and every "
            "subset mask; subgraph is executed for eight kinds of iterables and compared with the induced restriction of the reference model; components "
            "are compared with a BFS on the model; compose is executed on component subgraphs and on overlapping pieces (list and generator) and compared "
            "with the labelled union (later wins).",
    "note": "Trusted: CrossHair path exhaustion, z3, reference model and its induced-subgraph definition. A None placeholder is not an atom.",
    "technique": "CrossHair symbolic execution with z3 (solver-enumerated bounded graphs and subset masks, real code per path) against a reference model",
}
