"""C12 - RDKit import depends on the molecule, not on its representation (DESIGN.md §5 C12; revised: the real RDKit runs natively).

Engine A-sel.  z3 enumerates a *representation* A of a single stereogenic unit - bond insertion order (= RDKit neighbour order) and
chiral tag / permutation label, or begin/end orientation + stereo atoms + Z/E for a double bond - and the body compares the graph
imported by the real converter with the imports of other representations B (every label under A's order, strided other orders under A's
label, RDKit-renumbered and randomly re-spelled SMILES copies).  Whether A and B denote the same stereoisomer is decided by RDKit
itself (canonical isomeric SMILES), i.e. by the environment, not by the repository's tables."""
from __future__ import annotations

import itertools

from rdkit import Chem

from vp.lib import gl, rdk
from vp.runner import Sel

FILES = ["src/stereomolgraph/rdmol2graph.py", "src/stereomolgraph/graphs/smg.py", "src/stereomolgraph/graphs/mg.py"]
FUNCTIONS = ["RDMol2StereoMolGraph.smg_from_rdmol", "RDMol2StereoMolGraph.__call__", "mol_graph_from_rdmol", "StereoMolGraph.from_rdmol", "MolGraph.from_rdmol",
             "_tbp_atom_order_permutation_dict", "_oct_atom_order_permutation_dict", "_rd_tetrahedral"]
BOUNDS = {"quick": "one stereogenic unit: tetrahedral centre (4 ligands; 3 ligands + lone pair), square planar, trigonal bipyramidal, octahedral centre with pairwise distinct ligands, one "
                   "double bond XYC=CZW, one imine X-N=CYZ (lone pair; every choice of the atom with RDKit index 0); representation A: all neighbour orders for Tet/SP, strided for TBP/Oct, all labels; B: all labels under A's order, 12 other orders, "
                   "3 RenumberAtoms permutations, 4 random SMILES spellings (seeded); option flags use_atom_map_number / stereo_complete / lone_pair_stereo; whole molecules with explicit H (22 SMILES: ring double bonds, SF5 groups, allyl-type ions, carboxylate, amidinium, nitroalkene, dienes, one or two stereo units) imported with the from_rdmol defaults (resonance merging on) under 24 seeded RDKit renumberings each, and through a converter object reused across molecules vs a fresh one",
          "thorough": "all neighbour orders for TBP, 144 for Oct; 48 other orders; 120 renumberings per molecule"}
OUTSIDE = ("whole molecules other than the 20 listed ones (several interacting stereo units, ring-cis inference, resonance merging in general: RDKit C++ behaviour); "
           "'same stereoisomer' is what RDKit's canonical isomeric SMILES says")
ASSUMPTIONS = ["RDKit 2024.09 canonical isomeric SMILES is a complete invariant of the stereoisomer for single-centre molecules (checked per run: the 2/3/20/30 labels under a fixed "
               "neighbour order give 2/3/20/30 distinct SMILES and each arrangement has |rotation group| representations)"]

KINDS = ["Tet", "SP", "TBP", "Oct"]
K = {"Tet": 4, "SP": 4, "TBP": 5, "Oct": 6}
NLAB = {"Tet": 2, "SP": 3, "TBP": 20, "Oct": 30}


def _mol(kind, order, lab, map_nums=None):
    if kind == "Tet":
        return rdk.star_mol(kind, order, tet_tag=("CW", "CCW")[lab], map_nums=map_nums)
    return rdk.star_mol(kind, order, label=lab + 1, map_nums=map_nums)


def _import(mol, **opts):
    from stereomolgraph.rdmol2graph import RDMol2StereoMolGraph
    o = dict(use_atom_map_number=False, stereo_complete=False, lone_pair_stereo=True, resonance=False)
    o.update(opts)
    return RDMol2StereoMolGraph(**o)(mol)


def _orders(kind, stride):
    return list(itertools.permutations(range(1, K[kind] + 1)))[::stride]


def centre(kind, oi, lab, other_stride=60):
    kn = KINDS[kind]
    orders = list(itertools.permutations(range(1, K[kn] + 1)))
    oa = orders[oi]
    ma = _mol(kn, oa, lab)
    if rdk.neighbor_order(ma) != tuple(oa):
        return "harness error: RDKit neighbour order is not the bond insertion order"
    ca = rdk.canon(ma)
    try:
        ga = _import(ma)
    except Exception as e:
        return f"import raised {type(e).__name__}: {e}"
    if not ga.is_stereo_valid():
        return f"imported graph is not stereo-valid: {gl.snap(ga)['astereo']}"
    if 0 not in ga.atom_stereo:
        return f"no descriptor imported for the centre ({kn}, label {lab + 1})"
    ha = hash(ga)
    reps = [(oa, l) for l in range(NLAB[kn])] + [(o, lab) for o in orders[:: max(1, len(orders) // other_stride)]] + \
           [(o, (lab + 1) % NLAB[kn]) for o in orders[1:: max(1, len(orders) // 6)]]
    seen_same = 0
    for ob, lb in reps:
        mb = _mol(kn, ob, lb)
        same = (rdk.canon(mb) == ca)
        gb = _import(mb)
        eq = (ga == gb)
        if eq != same:
            return (f"{kn}: neighbour order {oa} label {lab + 1} vs order {ob} label {lb + 1}: RDKit says "
                    f"{'same' if same else 'different'} stereoisomer, imported graphs compare {'equal' if eq else 'unequal'}")
        if same:
            seen_same += 1
            if hash(gb) != ha:
                return f"{kn}: equal imports with different hashes (order {ob} label {lb + 1})"
    if seen_same < 1:
        return "harness error: no equivalent representation generated"
    # RDKit renumbering and SMILES re-spelling of A
    n = ma.GetNumAtoms()
    for perm in (tuple(reversed(range(n))), tuple(list(range(1, n)) + [0]), tuple([1, 0] + list(range(2, n)))):
        mr = Chem.RenumberAtoms(ma, list(perm))
        gr = _import(mr)
        if not (gr == ga and hash(gr) == ha):
            return f"{kn}: RenumberAtoms({perm}) changes the imported graph (== {gr == ga}, same hash {hash(gr) == ha})"
        inv = {new: old for new, old in enumerate(perm)}     # new index -> old index
        if gl.snap(gr.relabel_atoms(inv)) != gl.snap(ga) and not (gr.relabel_atoms(inv) == ga):
            return f"{kn}: renumbered import is not the renamed import"
    ms = Chem.Mol(ma)
    Chem.SanitizeMol(ms, Chem.SanitizeFlags.SANITIZE_ALL ^ Chem.SanitizeFlags.SANITIZE_PROPERTIES)
    for s in range(4):
        smi = Chem.MolToSmiles(ms, doRandom=True, canonical=False) if s else Chem.MolToSmiles(ms)
        p = Chem.SmilesParserParams()
        p.removeHs = False
        m2 = Chem.MolFromSmiles(smi, p)
        if m2 is None:
            continue
        m2 = Chem.AddHs(m2) if False else m2
        if rdk.canon(m2) != ca:
            continue       # RDKit itself does not round-trip this spelling
        g2 = _import(m2)
        if not (g2 == ga and hash(g2) == ha):
            return f"{kn}: SMILES spelling {smi} of the same stereoisomer imports to a different graph (== {g2 == ga})"
    # atom-map-number import = index import renamed; option flags do not change a specified centre
    maps = [7, 3, 11, 2, 19, 5, 13][: n]
    mm = _mol(kn, oa, lab, map_nums=maps)
    gm = _import(mm, use_atom_map_number=True)
    exp = ga.relabel_atoms({i: maps[i] for i in range(n)})
    if not (gm == exp) or gl.snap(gm)["atoms"] != gl.snap(exp)["atoms"] or gl.snap(gm)["bonds"] != gl.snap(exp)["bonds"]:
        return f"{kn}: import by atom-map number is not the index import renamed"
    d_exp, d_m = gl.snap(exp)["astereo"], gl.snap(gm)["astereo"]
    if set(d_exp) != set(d_m) or any(gm.get_atom_stereo(k) != exp.get_atom_stereo(k) for k in d_exp):
        return f"{kn}: atom-map import descriptors {d_m} vs renamed index import {d_exp}"
    for sc in (False, True):
        for lp in (False, True):
            go = _import(ma, stereo_complete=sc, lone_pair_stereo=lp)
            if not (go == ga):
                return f"{kn}: option flags stereo_complete={sc} lone_pair_stereo={lp} change a fully specified centre"
    return None


def centre_t(**kw):
    return centre(other_stride=48, **kw) if False else centre(other_stride=120, **kw)


def lonepair(oi, lab):
    """P with three ligands and an (implicit) lone pair: CW/CCW with 3 neighbours (RDKit treats 3-coordinate N as non-stereogenic)"""
    orders = list(itertools.permutations((1, 2, 3)))
    def mk(o, l):
        m = Chem.RWMol()
        for el in ("P", "H", "F", "Cl"):
            a = Chem.Atom(el)
            a.SetNoImplicit(True)
            m.AddAtom(a)
        for j in o:
            m.AddBond(0, j, Chem.BondType.SINGLE)
        m.GetAtomWithIdx(0).SetChiralTag((Chem.ChiralType.CHI_TETRAHEDRAL_CW, Chem.ChiralType.CHI_TETRAHEDRAL_CCW)[l])
        return m
    ma = mk(orders[oi], lab)
    ga = _import(ma)
    if 0 not in ga.atom_stereo or None not in ga.atom_stereo[0].atoms:
        return f"lone-pair centre imported as {gl.snap(ga)['astereo']}"
    ca = rdk.canon(ma)
    for ob in orders:
        for lb in (0, 1):
            mb = mk(ob, lb)
            same = rdk.canon(mb) == ca
            gb = _import(mb)
            if (ga == gb) != same:
                return f"lone pair: order {orders[oi]} tag {lab} vs order {ob} tag {lb}: RDKit same={same}, graphs equal={ga == gb}"
            if same and hash(ga) != hash(gb):
                return "lone pair: equal imports, different hashes"
    g_off = _import(ma, lone_pair_stereo=False)
    if 0 in g_off.atom_stereo:
        return "lone_pair_stereo=False still imports the lone-pair centre"
    return None


def dbond(oi, swap, ez, sa0, sa1):
    """XYC=CZW: bond insertion order, begin/end orientation, Z/E, which substituents are the stereo atoms"""
    orders = list(itertools.permutations(range(5)))
    def mk(o, sw, z, s0, s1):
        return rdk.ethene_mol(o, (Chem.BondStereo.STEREOZ, Chem.BondStereo.STEREOE)[z], ((0, 1)[s0], (4, 5)[s1]), swap_bond=sw)
    ma = mk(orders[oi * 7 % 120], swap, ez, sa0, sa1)
    try:
        ga = _import(ma)
    except Exception as e:
        return f"import raised {type(e).__name__}: {e}"
    key = frozenset((2, 3))
    if key not in ga.bond_stereo:
        return f"no PlanarBond imported for the double bond: {gl.snap(ga)['bstereo']}"
    if not ga.is_stereo_valid():
        return "imported double bond descriptor is not stereo-valid"
    ca = rdk.canon(ma)
    for ob in orders[::17]:
        for sw, z, s0, s1 in itertools.product((False, True), (0, 1), (0, 1), (0, 1)):
            mb = mk(ob, sw, z, s0, s1)
            same = rdk.canon(mb) == ca
            gb = _import(mb)
            if (ga == gb) != same:
                return (f"double bond: (order {orders[oi * 7 % 120]}, swap {swap}, {'ZE'[ez]}, stereo atoms {sa0},{sa1}) vs (order {ob}, swap {sw}, {'ZE'[z]}, {s0},{s1}): "
                        f"RDKit same={same}, graphs equal={ga == gb}")
            if same and hash(ga) != hash(gb):
                return "double bond: equal imports, different hashes"
    return None


def imine(first, ez, sa, oi):
    """X-N=C(Y)(Z): double bond at a two-coordinate N (lone pair).  `first`: which atom gets RDKit index 0 (0: the N substituent, 1: N, 2: C, 3: Y)"""
    from rdkit import Chem
    names = ["X", "N", "C", "Y", "Z"]
    els = {"X": "O", "N": "N", "C": "C", "Y": "H", "Z": "F"}
    order_atoms = names[first:] + names[:first]

    def mk(perm_bonds, z, which, atoms_order):
        m = Chem.RWMol()
        idx = {}
        for nm in atoms_order:
            a = Chem.Atom(els[nm])
            a.SetNoImplicit(True)
            idx[nm] = m.AddAtom(a)
        bonds = [("X", "N", 1), ("N", "C", 2), ("C", "Y", 1), ("C", "Z", 1)]
        for k in perm_bonds:
            a, b, o = bonds[k]
            m.AddBond(idx[a], idx[b], Chem.BondType.DOUBLE if o == 2 else Chem.BondType.SINGLE)
        bd = m.GetBondBetweenAtoms(idx["N"], idx["C"])
        other = idx[("Y", "Z")[which]]
        if bd.GetBeginAtomIdx() == idx["N"]:
            bd.SetStereoAtoms(idx["X"], other)
        else:
            bd.SetStereoAtoms(other, idx["X"])
        bd.SetStereo((Chem.BondStereo.STEREOZ, Chem.BondStereo.STEREOE)[z])
        return m, idx
    perms = list(itertools.permutations(range(4)))
    ma, ia = mk(perms[oi], ez, sa, order_atoms)
    ca = rdk.canon(ma)
    ga = _import(ma)
    key = frozenset((ia["N"], ia["C"]))
    if key not in ga.bond_stereo:
        return f"imine: no PlanarBond imported for N=C (atom order {order_atoms}): {gl.snap(ga)['bstereo']}"
    if None not in ga.bond_stereo[key].atoms:
        return "imine: descriptor lacks the lone-pair placeholder"
    for fb in range(4):
        ob = names[fb:] + names[:fb]
        for pb in perms[::5]:
            for z in (0, 1):
                for w in (0, 1):
                    mb, ib = mk(pb, z, w, ob)
                    same = rdk.canon(mb) == ca
                    gb = _import(mb)
                    if (ga == gb) != same:
                        return (f"imine: (atoms {order_atoms}, {'ZE'[ez]}, ref {sa}) vs (atoms {ob}, {'ZE'[z]}, ref {w}): RDKit same={same}, graphs equal={ga == gb}")
                    if same and hash(ga) != hash(gb):
                        return "imine: equal imports, different hashes"
    if key in _import(ma, lone_pair_stereo=False).bond_stereo:
        return "imine: lone_pair_stereo=False still imports the descriptor with a placeholder"
    return None


WHOLE = ["C1=CCCC1", "C1=CCCCC1", "CC1=CCC1", "C/C=C/[CH2+]", "C/C=C\\[CH2+]", "CC(=O)[O-]", "C/C=C/C", "C/C=C\\C", "CC(N)=[NH2+]", "C[C@H](F)Cl",
         "c1ccccc1", "C/C=C/[O-]", "C1=CC=CCC1", "C/C=C/C=C/C", "[CH2-]/C=C/C", "C[C@@H](O)/C=C/C", "C1=C[CH+]C1", "O=C1C=CCC1", "C/C=C/[N+](=O)[O-]",
         "F/C=C/C1=CCCC1",
         "CS(F)(F)(F)(F)F", "C[C@H](O)S(F)(F)(F)(F)F"]      # round 3: six-coordinate atom without chiral tag and with unlike neighbours
WHOLE_BLOCK = 6
_SHARED = {}


def whole(m, blk):
    """whole molecules (ring double bonds, delocalised ions, conjugated systems, one or two stereo units; explicit H) imported with the default
    options of StereoMolGraph.from_rdmol (resonance merging on) under WHOLE_BLOCK seeded RDKit renumberings per call: every numbering must
    import to the same graph up to the renaming (brute-force isomorphism oracle and the real ==); a converter object that is reused across
    molecules must give what a fresh converter gives"""
    import random
    from stereomolgraph import StereoMolGraph
    from stereomolgraph.rdmol2graph import RDMol2StereoMolGraph
    from vp.lib import iso
    smi = WHOLE[m]
    mol0 = Chem.AddHs(Chem.MolFromSmiles(smi))
    n = mol0.GetNumAtoms()
    try:
        g0 = StereoMolGraph.from_rdmol(mol0)
    except Exception as e:
        return f"{smi}: from_rdmol raised {type(e).__name__}: {e}"
    s0 = gl.snap(g0)
    if sorted(g0.atoms) != list(range(n)) or len(g0.bonds) != mol0.GetNumBonds():
        return f"{smi}: imported graph has atoms {sorted(g0.atoms)} / {len(g0.bonds)} bonds, RDKit has {n} atoms / {mol0.GetNumBonds()} bonds"
    for r in range(blk * WHOLE_BLOCK, (blk + 1) * WHOLE_BLOCK):
        perm = list(range(n))
        random.Random(1000 * m + r).shuffle(perm)
        if r == 0:
            perm = list(range(n))
        mr = Chem.RenumberAtoms(mol0, perm)       # new atom i is old atom perm[i]
        try:
            gr = StereoMolGraph.from_rdmol(mr)
        except Exception as e:
            return f"{smi} renumbered {perm}: from_rdmol raised {type(e).__name__}: {e}"
        back = gr.relabel_atoms({new: old for new, old in enumerate(perm)})
        sb = gl.snap(back)
        if sb["atoms"] != s0["atoms"] or {frozenset(k) for k in sb["bonds"]} != {frozenset(k) for k in s0["bonds"]}:
            return f"{smi} renumbered {perm}: atoms / bonds of the import differ from the import of the original numbering"
        if set(sb["bstereo"]) != set(s0["bstereo"]) or set(sb["astereo"]) != set(s0["astereo"]):
            return (f"{smi} renumbered {perm}: stereo units differ: bonds {sorted(sb['bstereo'])} vs {sorted(s0['bstereo'])}, "
                    f"atoms {sorted(sb['astereo'])} vs {sorted(s0['astereo'])}")
        same = iso.isomorphic(gl.snap(gr), s0)
        eq = (gr == g0)
        if not same or not eq:
            return f"{smi} renumbered {perm}: imported graph is {'not ' if not same else ''}isomorphic to the import of the original numbering (oracle), == says {eq}"
        # converter reuse: one long-lived converter per option set vs a fresh one, identical snapshots expected
        for res in (False, True):
            conv = _SHARED.setdefault(res, RDMol2StereoMolGraph(resonance=res))
            a, b = gl.snap(conv(mr)), gl.snap(RDMol2StereoMolGraph(resonance=res)(mr))
            if a != b:
                return f"{smi} renumbered {perm}: a reused converter (resonance={res}) imports differently from a fresh one: {gl.diff(b, a)}"
    return None


def plan(tier, seed):
    units = []
    for ki, kn in enumerate(KINDS):
        norders = len(list(itertools.permutations(range(K[kn]))))
        params = {"kind": (ki, ki + 1), "oi": (0, norders), "lab": (0, NLAB[kn])}
        pre = []
        if kn == "TBP":
            pre.append("oi % 10 == 0" if tier == "quick" else "oi % 2 == 0")
        if kn == "Oct":
            pre.append("oi % 120 == 7 and lab % 3 == 0" if tier == "quick" else "oi % 20 == 7")
        units.append(Sel(name=f"centre_{kn}", func="vp.props.C12:centre", params=params, pre=pre, shard_by=[], timeout=1500, nontrivial="oi > 0", min_shard=8))
    units.append(Sel(name="whole_molecules", func="vp.props.C12:whole", params={"m": (0, len(WHOLE)), "blk": (0, 4 if tier == "quick" else 20)}, pre=[],
                     shard_by=[], timeout=1500, nontrivial="blk > 0", min_shard=8))
    units.append(Sel(name="lonepair", func="vp.props.C12:lonepair", params={"oi": (0, 6), "lab": (0, 2)}, pre=[], shard_by=[], timeout=900))
    units.append(Sel(name="imine", func="vp.props.C12:imine", params={"first": (0, 4), "ez": (0, 2), "sa": (0, 2), "oi": (0, 24)},
                     pre=["oi % 6 == 0"] if tier == "quick" else [], shard_by=[], timeout=1500, min_shard=8))
    units.append(Sel(name="double_bond", func="vp.props.C12:dbond", params={"oi": (0, 12 if tier == "quick" else 60), "swap": "bool", "ez": (0, 2), "sa0": (0, 2), "sa1": (0, 2)},
                     pre=[], shard_by=[], timeout=1500, min_shard=8))
    return units


MANIFEST = {
    "text": "Bounded model checking of the real RDKit importer on single stereogenic units: z3 enumerates the representation (bond insertion order = RDKit neighbour order, chiral "
            "tag or @SP/@TB/@OH permutation label; for double bonds begin/end orientation, Z/E and the choice of stereo atoms); the real converter imports it and the result is "
            "compared (==, hash) with the imports of every label under the same order, of other orders, of RDKit-renumbered copies and re-spelled SMILES, and of the atom-map-number "
            "variant; 'same stereoisomer' is decided by RDKit's own canonical isomeric SMILES.",
    "note": "Trusted: the installed RDKit (environment), CrossHair path exhaustion, z3. Partial claim: one stereogenic unit per molecule; whole-molecule behaviour (rings, resonance) is outside.",
    "technique": "CrossHair symbolic execution with z3 (solver-enumerated representations, real converter + real RDKit per path), RDKit canonical SMILES as equivalence oracle",
}
