"""C19 - rejected edits are atomic (DESIGN.md §5 C19).

Same state family and machinery as C09; restricted to (a) the ill-formed requests of the property's list
(the reference model rejects them) and (b) lookups about absent atoms / bonds.  Each must raise (a) or
raise / answer negatively (b) and leave every public view unchanged."""
from __future__ import annotations

from vp.lib import fam, gl
from vp.props import C09
from vp.runner import Sel

FILES = C09.FILES + ["src/stereomolgraph/periodic_table.py"]
FUNCTIONS = ["every public mutator and getter of the four graph classes, on ill-formed requests"]
BOUNDS = {"quick": "universe {0,1,2} + absent id 9; all solver-enumerated pre-states (as C09 quick), 3 flavours; every ill-formed request of the listed kinds "
                   "and every lookup that mentions the absent id or an absent bond; requests centred on a bond that was removed under its bond descriptor (set_bond_stereo, set_bond_stereo_change)",
          "thorough": "universe {0,1,2,3} for MG/CRG, all decorations and 8 flavours for SMG/SCRG"}
OUTSIDE = C09.OUTSIDE
ASSUMPTIONS = C09.ASSUMPTIONS


def _mentions_absent(op, spec):
    present = {a for a, _, _ in spec["atoms"]}
    bonds = {frozenset((a, b)) for a, b, _, _ in spec["bonds"]}

    def ids(x):
        if isinstance(x, int) and not isinstance(x, bool):
            yield x
        elif isinstance(x, (tuple, list)):
            for y in x:
                yield from ids(y)

    flat = list(ids(op.args))
    if any(i not in present for i in flat):
        return True
    if len(flat) >= 2 and frozenset(flat[:2]) not in bonds and ("bond" in op.name):
        return True
    return False


def step(cls, k=3, nflav=3, **sel):
    cname = gl.CLS_NAMES[cls]
    spec = fam.decode(cname, k, sel)
    m0 = gl.model_from_spec(spec)
    n = 0
    for which in ("mut", "qry"):
        for kind in fam.kinds_for(cname, which):
            for op in fam.ops_of_kind(cname, kind, k):
                if op.model is not None:
                    expect, _ = fam.apply_model(m0, op)
                    if expect != "reject":
                        continue
                elif not _mentions_absent(op, spec):
                    continue
                n += 1
                for fl in range(nflav):
                    msg = C09._check_op(cname, spec, fl, op, k)
                    if msg:
                        return msg
    if n == 0:
        return "no ill-formed request generated (vacuous)"
    # a pre-state outside the decoded family but reachable in one step: the bond under a bond-centred descriptor has been removed (the descriptor
    # stays, by design); a descriptor / stereo change centred on that now absent bond is an ill-formed request
    for (kind_, atoms_, par_) in spec.get("bstereo", []):
        g = gl.build(spec)
        i, j = atoms_[2], atoms_[3]
        try:
            g.remove_bond(i, j)
        except Exception:
            continue
        s0 = gl.snap(g)
        reqs = [("set_bond_stereo", lambda g: g.set_bond_stereo(gl.mk_desc((kind_, atoms_[:2][::-1] + atoms_[2:], par_))))]
        if cname == "SCRG":
            reqs.append(("set_bond_stereo_change", lambda g: g.set_bond_stereo_change(formed=gl.mk_desc((kind_, atoms_, par_)))))
        for rname, req in reqs:
            raised = None
            try:
                req(g)
            except Exception as e:
                raised = e
            d = gl.diff(s0, gl.snap(g))
            if raised is None:
                return f"after remove_bond({i},{j}) under a bond descriptor: {rname} centred on the absent bond was accepted" + (f" and changed: {d}" if d else "")
            if d:
                return f"after remove_bond({i},{j}) under a bond descriptor: rejected {rname} ({type(raised).__name__}) changed a view: {d}"
    return None


def step3(**kw):
    return step(k=3, nflav=4, **kw)


def step3t(**kw):
    return step(k=3, nflav=5, **kw)


def step4(**kw):
    return step(k=4, nflav=5, **kw)


def plan(tier, seed):
    units = []
    for u in C09.plan(tier, seed):
        if not u.name.startswith("mut_"):
            continue
        f = {"step_mut3": "step3", "step_mut3t": "step3t", "step_mut4": "step4"}[u.func.split(":")[1]]
        units.append(Sel(name="reject_" + u.name[4:], func=f"vp.props.C19:{f}", params=u.params, pre=u.pre, shard_by=u.shard_by,
                         timeout=u.timeout, nontrivial=u.nontrivial))
    return units


MANIFEST = {
    "text": "Bounded model checking: from every solver-enumerated pre-state of a 3-identifier (thorough: 4) universe, every ill-formed request of the "
            "property's list and every lookup about an absent atom/bond is executed on the real classes; each must raise (requests) or raise/answer "
            "negatively (lookups) and leave all public views and their mutual coherence unchanged.",
    "note": "Trusted: CrossHair path exhaustion, z3, the reference model's notion of 'ill-formed' (vp/lib/gl.py Model, follows the property's list).",
    "technique": "CrossHair symbolic execution with z3 (solver-enumerated bounded pre-states, real code per path), snapshot comparison",
}
