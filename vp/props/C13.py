"""C13 - RDKit export followed by import preserves structure and stereo (DESIGN.md §5 C13; the real RDKit runs natively).

Engine A-sel: z3 enumerates a template graph with one stereogenic unit (tetrahedral incl. lone pair, square planar, trigonal
bipyramidal, octahedral, double bond), its descriptor ordering and parity, an identifier variant and the atom insertion order (so that
RDKit's neighbour order differs from the descriptor's); the real exporter writes an RWMol, the real importer reads it back by atom-map
number."""
from __future__ import annotations

import random

from vp.lib import eqfam, gl, oracle, tmpl
from vp.props import C01
from vp.runner import Sel

FILES = ["src/stereomolgraph/graph2rdmol.py", "src/stereomolgraph/rdmol2graph.py", "src/stereomolgraph/graphs/mg.py", "src/stereomolgraph/graphs/smg.py"]
FUNCTIONS = ["stereo_mol_graph_to_rdmol", "mol_graph_to_rdmol", "set_bond_orders", "RDMol2StereoMolGraph.smg_from_rdmol", "StereoMolGraph._to_rdmol",
             "StereoMolGraph.to_rdmol", "StereoMolGraph.from_rdmol"]
IDSETS = [None, {0: 11, 1: 5, 2: 40, 3: 1, 4: 999, 5: 2, 6: 77, 7: 8}]
BOUNDS = {"quick": "templates star4 (Tet all 24 orderings x parity, SP), lonepair, star5 (TBP, strided), star6 (Oct, strided), dbond (PlanarBond); 2 identifier sets "
                   "(0-based and {11,5,40,1,999,2,..}); 3 atom insertion orders; two directly bonded centres (Oct+Tet, Oct+Oct, TBP+Tet, SP+Tet, Oct+TBP; 6 orderings x parities x 6 insertion orders); 10 whole molecules (C=C next to sulfonyl / phosphoryl / carbonyl, 1-2 tetrahedral centres) x 8 insertion orders x heteroatoms-first, bond orders regenerated",
          "thorough": "all orderings of TBP, 144 of Oct; 6 insertion orders; 24 orderings / 16 insertion orders of the bonded pairs, 40 insertion orders of the molecules"}
OUTSIDE = "molecules with several stereo units other than the listed pairs of directly bonded centres; RDKit sanitisation of larger molecules; identifiers <= 0 (atom-map numbers must be positive)"
ASSUMPTIONS = ["identifiers are positive (RDKit atom-map numbers; the importer rejects 0)"]


def _roundtrip(spec, idset, ins, bond_orders=False):
    from stereomolgraph.rdmol2graph import RDMol2StereoMolGraph
    sp = tmpl.rename(spec, {a: a + 1 for a in tmpl.atoms_of(spec)}) if idset is None else tmpl.rename(spec, idset)
    rng = random.Random(ins)
    if ins:
        sp = tmpl.reorder(sp, rng)
    g = gl.build(sp)
    s0 = gl.snap(g)
    try:
        mol, idx_map = g._to_rdmol(generate_bond_orders=bond_orders)
    except Exception as e:
        return f"export raised {type(e).__name__}: {e}"
    d = gl.diff(gl.snap(g), s0)
    if d:
        return f"export changed the exported graph: {d}"
    try:
        h = RDMol2StereoMolGraph(use_atom_map_number=True, resonance=False, stereo_complete=False, lone_pair_stereo=True)(mol)
    except Exception as e:
        return f"import of the exported molecule raised {type(e).__name__}: {e}"
    s1 = gl.snap(h)
    if {a: d["atom_type"] for a, d in s1["atoms"].items()} != {a: d["atom_type"] for a, d in s0["atoms"].items()}:
        return f"atoms / elements differ after the round trip: {s1['atoms']} vs {s0['atoms']}"
    if set(s1["bonds"]) != set(s0["bonds"]):
        return f"bonds differ after the round trip: {set(s1['bonds'])} vs {set(s0['bonds'])}"
    for a, dsc in s0["astereo"].items():
        if dsc[2] is None:
            continue
        got = s1["astereo"].get(a)
        if got is None or got[0] != dsc[0] or not oracle.desc_equal(got, dsc) or not (h.get_atom_stereo(a) == g.get_atom_stereo(a)):
            return f"atom descriptor on {a}: exported {dsc}, re-imported {got}"
    if bond_orders:
        for b, dsc in s0["bstereo"].items():
            if dsc[2] is None or dsc[0] != "PB":
                continue
            got = s1["bstereo"].get(b)
            if got is None or got[0] != "PB" or not oracle.desc_equal(got, dsc):
                return f"E/Z descriptor on {b}: exported {dsc}, re-imported {got}"
    return None


def template(t, cls, idset, ins, **sel):
    name = C01.TNAMES[t]
    spec = eqfam.template_spec(name, "SMG", sel)
    from vp.lib import iso
    if not iso.stereo_valid(gl.snap(gl.build(spec))):
        return None       # the property speaks about stereo-valid graphs (orderings that put a substituent on the wrong end are skipped)
    return _roundtrip(spec, IDSETS[idset], ins, bond_orders=(name == "dbond"))


WHOLE = ["F/C=C/S(=O)(=O)Cl", "C/C=C/P(=O)(C)C", "C/C=C\\C", "C[C@H](F)/C=C/Cl", "F/C=C\\CS(=O)(=O)C", "C[C@@H](Cl)S(=O)(=O)/C=C/F", "C/C=C/CC=O",
         "C[C@H](O)[C@@H](F)Cl", "F/C=C/C[S@](=O)C", "C/C(F)=C(/Cl)C"]


def _spec_of(g):
    s = gl.snap(g)
    sp = gl.empty_spec("SMG")
    sp["atoms"] = [(a, d["atom_type"], {}) for a, d in s["atoms"].items()]
    sp["bonds"] = [(a, b, None, {}) for (a, b) in s["bonds"]]
    sp["astereo"] = list(s["astereo"].values())
    sp["bstereo"] = list(s["bstereo"].values())
    return sp


def whole(m, ins, first):
    """whole molecules (isolated C=C next to sulfonyl / phosphoryl / carbonyl groups, one or two tetrahedral centres) taken from RDKit, rebuilt with a seeded
    atom / bond insertion order (and optionally the heteroatom-rich end first), exported with generated bond orders and imported again"""
    from rdkit import Chem
    from stereomolgraph import StereoMolGraph
    mol = Chem.AddHs(Chem.MolFromSmiles(WHOLE[m]))
    g0 = StereoMolGraph.from_rdmol(mol, stereo_complete=False)
    double = {frozenset((b.GetBeginAtomIdx(), b.GetEndAtomIdx())) for b in mol.GetBonds()
              if b.GetBondType() == Chem.BondType.DOUBLE and b.GetBeginAtom().GetSymbol() == "C" and b.GetEndAtom().GetSymbol() == "C"}
    for b in list(g0.bond_stereo):
        if frozenset(b) not in double:
            g0.delete_bond_stereo(b)      # the property speaks about E/Z of isolated double bonds only
    sp = _spec_of(g0)
    if first:
        heavy = {a.GetIdx(): a.GetAtomicNum() for a in mol.GetAtoms()}
        order = sorted(heavy, key=lambda i: (-heavy[i], i))
        sp["atoms"] = sorted(sp["atoms"], key=lambda t: order.index(t[0]))
        sp["bonds"] = sorted(sp["bonds"], key=lambda t: min(order.index(t[0]), order.index(t[1])))
    if len(sp["bstereo"]) + len(sp["astereo"]) == 0:
        return f"harness error: no stereo unit imported for {WHOLE[m]}"
    msg = _roundtrip(sp, None, ins, bond_orders=True)
    return f"{WHOLE[m]}: {msg}" if msg else None


COMPLEX_IDSETS = [None, {0: 11, 1: 5, 2: 40, 3: 1, 4: 999, 5: 2, 6: 77, 7: 8, 8: 3, 9: 120, 10: 7, 11: 64, 12: 13, 13: 21}]
COMPLEX_KINDS = ["Oct+Tet", "Oct+Oct", "TBP+Tet", "SP+Tet", "Oct+TBP"]


def _complex_spec(kind, oc, pc, pl):
    """two bonded stereocentres: a coordination centre 0 (ligands 1..k; ligand 1 is the second centre) and centre 1 with its own ligands"""
    a, b = COMPLEX_KINDS[kind].split("+")
    ka, kb = oracle.ARITY[a] - 1, oracle.ARITY[b] - 1
    lig_els = ["F", "Cl", "Br", "I", "N", "O"]
    s = gl.empty_spec("SMG")
    s["atoms"] = [(0, "Co" if a != "SP" else "Pt", {}), (1, "P" if b == "Tet" else "Rh", {})]
    s["bonds"] = [(0, 1, None, {})]
    for i in range(2, ka + 1):
        s["atoms"].append((i, lig_els[i - 2], {}))
        s["bonds"].append((0, i, None, {}))
    second = list(range(ka + 1, ka + kb))
    for j, i in enumerate(second):
        s["atoms"].append((i, ["H", "F", "Cl", "Br", "I"][j], {}))
        s["bonds"].append((1, i, None, {}))
    la = list(range(1, ka + 1))
    random.Random(oc * 131 + kind).shuffle(la)
    lb = [0] + second
    random.Random(oc * 17 + kind + 5).shuffle(lb)
    par = lambda k, q: (0 if not oracle.CHIRAL[k] else (1 if q == 0 else -1))  # noqa: E731
    s["astereo"] = [(a, (0, *la), par(a, pc)), (b, (1, *lb), par(b, pl))]
    return s


def complex2(kind, oc, pc, pl, idset, ins):
    """two directly bonded stereocentres (an octahedral / TBP / square planar centre whose ligand is itself a tetrahedral, TBP or octahedral centre)"""
    return _roundtrip(_complex_spec(kind, oc, pc, pl), COMPLEX_IDSETS[idset], ins)


def plan(tier, seed):
    units = []
    units.append(Sel(name="two_bonded_centres", func="vp.props.C13:complex2",
                     params={"kind": (0, len(COMPLEX_KINDS)), "oc": (0, 6 if tier == "quick" else 24), "pc": (0, 2), "pl": (0, 2), "idset": (0, 2),
                             "ins": (0, 6 if tier == "quick" else 16)},
                     pre=["pc == 0 or kind != 3"], shard_by=[], timeout=1500, nontrivial="ins > 0", min_shard=16))
    units.append(Sel(name="whole_molecules", func="vp.props.C13:whole", params={"m": (0, len(WHOLE)), "ins": (0, 8 if tier == "quick" else 40), "first": "bool"},
                     pre=[], shard_by=[], timeout=1500, nontrivial="ins > 0", min_shard=16))
    names = ["star4", "lonepair", "dbond", "star5", "star6"]
    for (n, c, p, pr) in eqfam.template_units(names, classes=("SMG",)):
        params = {"t": (C01.TNAMES.index(n), C01.TNAMES.index(n) + 1), "cls": (1, 2), "idset": (0, 2), "ins": (0, 3 if tier == "quick" else 6)}
        params.update(p)
        pre = list(pr) + ["par < 2", "chg == 0"]
        pre += {"star4": ["lig in (0, 1)"], "lonepair": ["lig in (0, 1)"], "dbond": ["kind == 0", "sub in (0, 1)"],
                "star5": ["lig == 0", "order % 6 == 0" if tier == "quick" else "True"],
                "star6": ["lig == 0", "order % 60 == 0" if tier == "quick" else "order % 5 == 0"]}[n]
        units.append(Sel(name=f"roundtrip_{n}", func="vp.props.C13:template", params=params, pre=pre, shard_by=[], timeout=1500, nontrivial="order > 0" if "order" in p else None,
                         min_shard=16))
    return units


MANIFEST = {
    "text": "Bounded model checking of export + import on single stereogenic units with the real RDKit: z3 enumerates template, descriptor class / ordering / parity, identifier set "
            "and atom insertion order; the real stereo_mol_graph_to_rdmol writes an RWMol, the real importer reads it back by atom-map number; atoms, elements and bonds must be "
            "identical, every atom-centred descriptor must come back equal (real == and rotation-group oracle), PlanarBond on the isolated double bond when bond orders are "
            "generated, and the exported graph must be unchanged.",
    "note": "Trusted: installed RDKit (environment), CrossHair path exhaustion, z3, rotation-group oracle. Partial claim: one stereogenic unit per molecule.",
    "technique": "CrossHair symbolic execution with z3 (solver-enumerated templates/orderings, real exporter + importer + RDKit per path)",
}
