"""C18 - bond-order perception never alters connectivity and completes octets (DESIGN.md §5 C18).

Structural part: solver-enumerated element lists and adjacency bits; the real connectivity2bond_orders must return a
symmetric integer matrix that is >= 1 exactly on bonded pairs and 0 elsewhere.
Chemical part: the harness takes a symbolic symmetric bond-order matrix b_ij in 0..3; the *precondition* demands
connectedness and row sums equal to a standard valence of the (sorted) element choice, so z3 generates exactly the
valence-correct neutral closed-shell molecules within the size bound; the connectivity b>0 is fed to the real function in
several atom orders and every row sum of the result must be a standard valence, with no charges / unpaired electrons."""
from __future__ import annotations

import itertools
import warnings

import numpy as np

from vp.runner import Sel

FILES = ["src/stereomolgraph/algorithms/bond_orders.py", "src/stereomolgraph/graph2rdmol.py"]
FUNCTIONS = ["connectivity2bond_orders", "_AC2BO", "_get_BO", "_get_UA", "_get_UA_pairs", "_BO_is_OK", "_charge_is_OK", "_valences_not_too_large",
             "set_bond_orders (via MolGraph._to_rdmol on the same molecules)"]
ELS = [1, 6, 7, 8, 9, 16, 15, 17]            # H C N O F S P Cl
STD = {1: (1,), 6: (4,), 7: (3,), 8: (2,), 9: (1,), 16: (2, 6), 15: (3, 5), 17: (1,), 35: (1,), 53: (1,)}
STRUCT_ELS = [1, 6, 7, 8, 9, 16, 15, 78, 5]  # incl. Pt, B for the structural part (elements the function supports)
BOUNDS = {"quick": "structural: all element lists over {H,C,N,O,F,S,P,Pt,B} (non-decreasing index) x all adjacency matrices, <= 4 atoms, charge 0 and "
                   "allow_charged_fragments in {False, True} with charge in {-1,0,1}; chemical: all valence-correct connected molecules with <= 4 atoms over "
                   "{H,C,N,O,F,S(II/VI),P(III/V),Cl}, bond orders <= 3, 6 atom orders each; every such molecule exported with generated bond orders under three identifier assignments and from subgraph(all atoms) in three other orders",
          "thorough": "structural <= 5 atoms (elements H,C,N,O,S,Pt); chemical <= 5 atoms, all atom orders"}
OUTSIDE = "molecules with more than 5 atoms, hence benzene-size aromatic systems; Br, I (same valence pattern as Cl); hypervalent S(VI)/P(V) inside a three-membered ring and S(VI) carrying two triple bonds (recorded findings); elements without an entry in the valence-electron table (the function raises)"
ASSUMPTIONS = ["standard valences as in the property statement: H1 C4 N3 O2 F1 Cl1 S2/6 P3/5"]


def _pairs(n):
    return list(itertools.combinations(range(n), 2))


def structural(n, e0, e1, e2, e3, e4, adj, mode):
    from stereomolgraph.algorithms.bond_orders import connectivity2bond_orders
    els = [STRUCT_ELS[e] for e in (e0, e1, e2, e3, e4)[:n]]
    ac = np.zeros((n, n), dtype=int)
    for k, (i, j) in enumerate(_pairs(n)):
        if adj >> k & 1:
            ac[i, j] = ac[j, i] = 1
    allow, charge = [(False, 0), (True, 0), (True, 1), (True, -1)][mode]
    with warnings.catch_warnings():
        warnings.simplefilter("ignore")
        try:
            bo, charges, unpaired = connectivity2bond_orders(els, ac.copy(), allow_charged_fragments=allow, charge=charge)
        except Exception as e:
            return f"connectivity2bond_orders({els}, adj={adj:b}, allow={allow}, charge={charge}) raised {type(e).__name__}: {e}"
    bo = np.asarray(bo)
    if bo.shape != (n, n):
        return f"bond-order matrix has shape {bo.shape}"
    if not np.issubdtype(bo.dtype, np.integer) and not np.all(bo == np.round(bo)):
        return "bond orders are not integers"
    if not (bo == bo.T).all():
        return f"bond-order matrix not symmetric: {bo.tolist()}"
    for i in range(n):
        for j in range(n):
            if ac[i, j] == 1 and bo[i, j] < 1:
                return f"bonded pair ({i},{j}) has order {bo[i, j]} for {els}, adj={ac.tolist()}"
            if ac[i, j] == 0 and bo[i, j] != 0:
                return f"non-bonded pair ({i},{j}) has order {bo[i, j]} for {els}, adj={ac.tolist()}"
    if len(charges) != n or len(unpaired) != n:
        return "charge / radical lists have wrong length"
    return None


def _b(n, vals):
    m = np.zeros((n, n), dtype=int)
    for v, (i, j) in zip(vals, _pairs(n)):
        m[i, j] = m[j, i] = v
    return m


def chemical(n, e0, e1, e2, e3, e4, b01=0, b02=0, b03=0, b04=0, b12=0, b13=0, b14=0, b23=0, b24=0, b34=0, all_orders=False):
    from stereomolgraph.algorithms.bond_orders import connectivity2bond_orders
    els = [ELS[e] for e in (e0, e1, e2, e3, e4)[:n]]
    full = {(0, 1): b01, (0, 2): b02, (0, 3): b03, (0, 4): b04, (1, 2): b12, (1, 3): b13, (1, 4): b14, (2, 3): b23, (2, 4): b24, (3, 4): b34}
    bom = _b(n, [full[p] for p in _pairs(n)])
    # sanity of the generated molecule (precondition restated natively)
    for i in range(n):
        if int(bom[i].sum()) not in STD[els[i]]:
            return f"harness error: generated molecule violates valences {els} {bom.tolist()}"
    ac = (bom > 0).astype(int)
    perms = list(itertools.permutations(range(n)))
    if not all_orders:
        perms = perms[:: max(1, len(perms) // 6)]
    results = []
    for perm in perms:
        pe = [els[i] for i in perm]
        pac = ac[np.ix_(perm, perm)]
        with warnings.catch_warnings():
            warnings.simplefilter("ignore")
            try:
                bo, charges, unpaired = connectivity2bond_orders(pe, pac.copy())
            except Exception as e:
                return f"connectivity2bond_orders({pe}, {pac.tolist()}) raised {type(e).__name__}: {e}"
        bo = np.asarray(bo)
        if ((bo > 0).astype(int) != pac).any():
            return f"connectivity altered for {pe}: {bo.tolist()} vs {pac.tolist()}"
        for i in range(n):
            if int(bo[i].sum()) not in STD[pe[i]]:
                return (f"atom {i} ({pe[i]}) gets valence {int(bo[i].sum())} in {pe} with connectivity {pac.tolist()} "
                        f"(a valence-correct assignment exists: {bom[np.ix_(perm, perm)].tolist()}); result {bo.tolist()}")
        if any(charges) or any(unpaired):
            return f"charges {charges} / unpaired electrons {unpaired} on a neutral closed-shell molecule {pe} {pac.tolist()}"
        inv = np.argsort(perm)
        results.append(tuple(int(bo[i].sum()) for i in inv))
    msg = _export_check(els, ac)
    if msg:
        return msg
    # "independently of the order of the atoms": the guarantee above holds for every order tried; where several valence-correct
    # assignments exist (S(II)/S(VI), P(III)/P(V)) different orders may legitimately return different ones.
    return None


STD_CHECK = True


def _export_check(els, ac):
    """the bond orders written onto the RDKit molecule by set_bond_orders (MolGraph._to_rdmol) are the computed ones, per graph bond, also when
    the identifiers are not 0..n-1 in ascending insertion order"""
    from stereomolgraph.algorithms.bond_orders import connectivity2bond_orders
    from stereomolgraph.graphs.mg import MolGraph
    n = len(els)
    for ids in (list(range(n)), [7, 3, 11, 5, 2][:n], list(range(n - 1, -1, -1))):
        g = MolGraph()
        for i in range(n):
            g.add_atom(ids[i], els[i])
        for i in range(n):
            for j in range(i + 1, n):
                if ac[i, j]:
                    g.add_bond(ids[i], ids[j])
        with warnings.catch_warnings():
            warnings.simplefilter("ignore")
            bo, _, _ = connectivity2bond_orders(g.atom_types, g.connectivity_matrix())
            try:
                mol, idx_map = g._to_rdmol(generate_bond_orders=True)
            except Exception as e:
                return f"export with bond orders raised {type(e).__name__}: {e} for ids {ids}"
        pos = {a: k for k, a in enumerate(g.atoms)}
        rd = {a: k for k, a in idx_map.items()}
        for b in g.bonds:
            x, y = tuple(b)
            got = mol.GetBondBetweenAtoms(rd[x], rd[y]).GetBondTypeAsDouble()
            exp = float(bo[pos[x]][pos[y]])
            if got != exp:
                return f"RDKit bond {x}-{y} has order {got}, bond-order matrix says {exp} (ids {ids}, elements {els})"
        # (round 3) the same molecule as a derived graph: subgraph over all atoms listed in another order (atom table and neighbour table then have
        # different key orders); the exported molecule must keep the connectivity and give every atom a standard valence, like the matrix above
        el_of = dict(zip(ids, els))
        for order in (list(reversed(ids)), ids[1:] + ids[:1], sorted(ids, key=lambda x: (x * 7) % 5)):
            h = g.subgraph(order)
            with warnings.catch_warnings():
                warnings.simplefilter("ignore")
                try:
                    mol2, map2 = h._to_rdmol(generate_bond_orders=True)
                except Exception as e:
                    return f"export of subgraph({order}) with bond orders raised {type(e).__name__}: {e}"
            at2 = dict(map2)
            val = {a: 0.0 for a in ids}
            for bnd in mol2.GetBonds():
                x, y = at2[bnd.GetBeginAtomIdx()], at2[bnd.GetEndAtomIdx()]
                if not g.has_bond(x, y) or bnd.GetBondTypeAsDouble() < 1:
                    return f"subgraph({order}) exported with a bond {x}-{y} of order {bnd.GetBondTypeAsDouble()} that the graph does not have"
                val[x] += bnd.GetBondTypeAsDouble()
                val[y] += bnd.GetBondTypeAsDouble()
            if mol2.GetNumBonds() != len(g.bonds):
                return f"subgraph({order}) exported with {mol2.GetNumBonds()} bonds, graph has {len(g.bonds)}"
            for a in ids:
                if mol2.GetAtomWithIdx({v: k for k, v in at2.items()}[a]).GetAtomicNum() != el_of[a]:
                    return f"subgraph({order}): exported atom {a} is not {el_of[a]}"
                if STD_CHECK and int(val[a]) not in STD[el_of[a]]:
                    return f"subgraph({order}) exported via the bond-order search: atom {a} ({el_of[a]}) has valence {val[a]} (elements {els}, ids {ids})"
    return None


def chemical_all(**kw):
    return chemical(all_orders=True, **kw)


def _chem_pre(n):
    """row sums = a standard valence of the chosen element; connected; elements sorted (symmetry reduction)"""
    names = {p: f"b{p[0]}{p[1]}" for p in _pairs(n)}
    pre = []
    for i in range(n):
        row = " + ".join(names[tuple(sorted((i, j)))] for j in range(n) if j != i) or "0"
        # valence table indexed by element index in ELS: H C N O F S P Cl
        pre.append(f"({row}) in ((1,), (4,), (3,), (2,), (1,), (2, 6), (3, 5), (1,))[e{i}]")
    for i in range(n - 1):
        pre.append(f"e{i} <= e{i + 1}")
    if n >= 2:
        # connectedness: for n <= 5 check that every non-empty proper subset containing atom 0 has a bond leaving it
        for r in range(1, n):
            for sub in itertools.combinations(range(1, n), r - 1):
                s = (0,) + sub
                rest = [j for j in range(n) if j not in s]
                cut = " + ".join(names[tuple(sorted((i, j)))] for i in s for j in rest)
                pre.append(f"({cut}) > 0")
    # recorded finding (known_findings.json): hypervalent S(VI) / P(V) that is a member of a three-membered ring
    for i in range(n):
        row = " + ".join(names[tuple(sorted((i, j)))] for j in range(n) if j != i) or "0"
        for j, k in itertools.combinations([x for x in range(n) if x != i], 2):
            pre.append(f"not (e{i} in (5, 6) and ({row}) > (2 if e{i} == 5 else 3) and {names[tuple(sorted((i, j)))]} > 0 and "
                       f"{names[tuple(sorted((i, k)))]} > 0 and {names[(j, k)]} > 0)")
    # recorded finding (known_findings.json): S(VI) that carries two triple bonds (X#S#Y), found by the thorough tier on five-atom chains
    for i in range(n):
        for j, k in itertools.combinations([x for x in range(n) if x != i], 2):
            pre.append(f"not (e{i} == 5 and {names[tuple(sorted((i, j)))]} == 3 and {names[tuple(sorted((i, k)))]} == 3)")
    return pre


def finding_sulfur_two_triple_bonds():
    """witness: chain P3#C0-C1#S2#P4 (elements C, C, S, P, P): the valence-correct assignment 3/1/3/3 exists, the search returns C=C, C=P, C=S and an S-P bond of order 4"""
    return chemical(n=5, e0=1, e1=1, e2=5, e3=6, e4=6, b01=1, b02=0, b03=3, b04=0, b12=3, b13=0, b14=0, b23=0, b24=3, b34=0)


def finding_hypervalent_ring():
    """witness: thiirene-S,S-dioxide-like skeleton C2OS: C0-C1, C0-S3, C1-S3, O2-S3 with S(VI): the search returns C#C and S-O"""
    msg = chemical(n=4, e0=1, e1=1, e2=3, e3=5, e4=0, b01=2, b02=0, b03=2, b12=0, b13=2, b23=2)
    return msg


def chem_solutions(u):
    """efficient native enumeration of the valence-correct connected molecules (backtracking with row-sum pruning)"""
    n = u.params["n"][0]
    prs = _pairs(n)
    maxv = {i: max(STD[e]) for i, e in enumerate(ELS)}
    out = []
    for els in itertools.combinations_with_replacement(range(len(ELS)), n):
        cap = [maxv[e] for e in els]
        sums = [0] * n
        vals = [0] * len(prs)

        def rec(k):
            if k == len(prs):
                if all(sums[i] in STD[ELS[els[i]]] for i in range(n)):
                    kw = {"n": n}
                    for i in range(5):
                        kw[f"e{i}"] = els[i] if i < n else 0
                    for (a, b), v in zip(prs, vals):
                        kw[f"b{a}{b}"] = v
                    out.append(kw)
                return
            a, b = prs[k]
            for v in range(0, 4):
                if sums[a] + v > cap[a] or sums[b] + v > cap[b]:
                    break
                vals[k] = v
                sums[a] += v
                sums[b] += v
                rec(k + 1)
                sums[a] -= v
                sums[b] -= v
            vals[k] = 0
        rec(0)
    f = None
    from vp import runner
    names = sorted(u.params)
    f = runner._compile_pre(list(u.pre), names)
    return [kw for kw in out if f(*[kw[x] for x in names])]


def plan(tier, seed):
    units = []
    nmax = 4 if tier == "quick" else 5
    for n in range(1, nmax + 1):
        npairs = len(_pairs(n))
        nel = len(STRUCT_ELS) if n <= 3 else (6 if tier == "quick" else 5)
        params = {"n": (n, n + 1)}
        for i in range(5):
            params[f"e{i}"] = (0, nel) if i < n else (0, 1)
        params["adj"] = (0, 1 << npairs)
        params["mode"] = (0, 4)
        pre = [f"e{i} <= e{i + 1}" for i in range(n - 1)]
        if n >= 4:
            pre.append("mode in (0, 2)" if tier == "quick" else "True")
        if n == 5:
            pre.append("e0 < 2 and e4 < 4 and mode in (0, 1)")
        units.append(Sel(name=f"structural_n{n}", func="vp.props.C18:structural", params=params, pre=pre, shard_by=[], timeout=1500,
                         nontrivial="adj > 0"))
    for n in range(2, nmax + 1):
        params = {"n": (n, n + 1)}
        for i in range(5):
            params[f"e{i}"] = (0, len(ELS)) if i < n else (0, 1)
        for p in _pairs(n):
            params[f"b{p[0]}{p[1]}"] = (0, 4)
        units.append(Sel(name=f"chemical_n{n}", func="vp.props.C18:" + ("chemical" if tier == "quick" else "chemical_all"), params=params,
                         pre=_chem_pre(n), shard_by=["e0"], timeout=1500, nontrivial="True", min_shard=8,
                         solutions_func="vp.props.C18:chem_solutions"))
    return units


MANIFEST = {
    "text": "Bounded model checking: (structural) z3 enumerates element lists and adjacency matrices up to 4 (thorough 5) atoms, the real connectivity2bond_orders "
            "must return a symmetric integer matrix, >= 1 exactly on bonded pairs; (chemical) z3 solves the valence equations - row sums of a symbolic bond-order "
            "matrix equal a standard valence, molecule connected - and thereby generates exactly the neutral closed-shell molecules within the bound; the real "
            "function receives only the connectivity, in several atom orders, and must give every atom a standard valence, no charges, no radicals, independent of order.",
    "note": "Trusted: CrossHair path exhaustion and z3's solution of the linear valence constraints (solution count cross-checked natively). Size bound 4/5 atoms: "
            "aromatic six-rings are outside.",
    "technique": "CrossHair symbolic execution with z3 (solver-generated valence-correct molecules as preconditions, real bond-order code per path)",
}
