"""C20 - XYZ text round-trips and distance connectivity is well-formed (DESIGN.md §5 C20).

(a) engine B: the real `pairwise_distances` and `BondsFromDistance.array` executed on z3 real terms (vp/shadow/reals.py):
    symmetry, zero diagonal, bond <=> d^2 < cutoff^2, invariance under translation / axis rotations / reflection / permutation -
    for all real coordinates; elements by solver-enumerated selectors.
(b) engine A-sel: XYZ text written by the real `Geometry.xyz_str` and read by the real `Geometry.from_xyz` for n in 1..3, any of
    the 118 elements, coordinates from a corner set, comments from 8 strings; MolGraph.from_geometry turns exactly the strict
    upper triangle of the connectivity into bonds."""
from __future__ import annotations

import itertools

import numpy as np

from vp.runner import Nat, Sel

FILES = ["src/stereomolgraph/coords.py", "src/stereomolgraph/xyz2graph.py", "src/stereomolgraph/periodic_table.py", "src/stereomolgraph/graphs/mg.py"]
FUNCTIONS = ["Geometry.xyz_str", "Geometry.from_xyz", "Geometry._from_xyz_stream", "pairwise_distances", "BondsFromDistance.array",
             "_DefaultFuncDict.array", "default_connectivity_cutoff", "connectivity_from_geometry", "MolGraph.from_atom_types_and_bond_order_matrix"]
CORNERS = [0.0, -0.0, 1e-8, -1e-8, 0.5e-8, -0.5e-8, 1.0, -1.0, 123456.789, -123456.789, 1e6, -1e6, 0.123456785, 2.5e-9]
COMMENTS = [None, "", "   ", "12345", "# comment", "H 0.0 0.0 0.0", "énergie = -1.5 Eₕ", "a\tb  c",
            "title\u2028H 9.0 9.0 9.0", "form\x0cfeed", "unit\x1fsep \x1c \x85 next", "vt\x0bx"]
BOUNDS = {"quick": "text: n in 1..3 atoms, element of atom 0 from 14 spread over the table (others from 6), 14 corner coordinate values on selected positions, 12 comments (incl. U+2028, FF, VT, unit/file separators, NEL inside the comment line); "
                   "kernel: <= 3 atoms, all real coordinates, element pairs from 6 elements; chains of 2..300 atoms (sizes around 64, 128, 256) in 3 element patterns x 3 atom orders against the O(n^2) definition; the same Geometry object shifted / stretched in place between two from_geometry calls",
          "thorough": "text: all 118 elements for atom 0; kernel: <= 4 atoms, element pairs from 12 elements"}
OUTSIDE = ("the text round trip for every float (format(x,'.8f') and numpy.loadtxt are C code; a finite corner set is exercised); comments containing a newline; "
           "floating-point evaluation of the distance test within rounding error of the cut-off")
ASSUMPTIONS = ["floating point agrees in sign with exact arithmetic away from the cut-off (the property's general position)"]


E0_QUICK = [1, 2, 6, 8, 9, 11, 17, 26, 35, 53, 78, 92, 103, 118]
C1S = [0, 9, 4, 12]
C2S = [1, 11, 13, 3]
WHICH = [0, 1, 5, 8]


def text_body(n, e0, e1, e2, c0, c1, c2, com, which, all_el=False):
    from stereomolgraph.coords import Geometry
    from stereomolgraph.periodic_table import SYMBOLS
    small = [1, 6, 8, 17, 78, 118]
    first = (e0 + 1) if all_el else E0_QUICK[e0]
    els = [first] + [small[e1], small[e2]][: n - 1]
    vals = [CORNERS[c0], CORNERS[C1S[c1]], CORNERS[C2S[c2]]]
    coords = np.zeros((n, 3))
    # spread the three chosen corner values over the coordinate table, position pattern `which`
    flat = coords.reshape(-1)
    for k, v in enumerate(vals):
        flat[(WHICH[which] + 4 * k) % flat.size] = v
    try:
        geo = Geometry(els, coords)
        txt = geo.xyz_str(comment=COMMENTS[com])
    except Exception as e:
        return f"xyz_str raised {type(e).__name__}: {e}"
    lines = txt.split("\n")
    if lines[0].strip() != str(n) or len([l for l in lines[2:] if l.strip()]) != n:
        return f"malformed XYZ text: {txt!r}"
    try:
        back = Geometry.from_xyz(txt)
    except Exception as e:
        return f"from_xyz raised {type(e).__name__}: {e} on {txt!r}"
    if tuple(back.atom_types) != tuple(els):
        return f"elements {back.atom_types} != {els}"
    if back.coords.shape != (n, 3):
        return f"coords shape {back.coords.shape}"
    exp = np.array([[float(f"{x:.8f}") for x in row] for row in coords])
    if not np.array_equal(back.coords, exp):
        return f"coordinates {back.coords.tolist()} != 8-decimal rounding {exp.tolist()}"
    if not (np.abs(back.coords - coords) <= 0.5e-8 + 1e-12 * np.abs(coords)).all():
        return "coordinates differ by more than the printed precision"
    if n == len(back) == back.n_atoms:
        return None
    return "length mismatch"


def text_body_all(**kw):
    return text_body(all_el=True, **kw)


def graph_body(n, e0, e1, e2, e3, d01, d02, d03, d12, d13, d23, cls):
    """from_geometry: bonds = strict upper triangle of the connectivity; atoms 0..n-1 in order; symmetric, no self bonds"""
    from stereomolgraph.coords import BondsFromDistance, Geometry
    from stereomolgraph.graphs.mg import MolGraph
    from stereomolgraph.graphs.smg import StereoMolGraph
    from stereomolgraph.periodic_table import COVALENT_RADII
    small = [1, 6, 8, 17, 35, 78]
    els = [small[e] for e in (e0, e1, e2, e3)[:n]]
    # place atoms on a line / plane with controlled distances is over-constrained; instead use a switching function on a fixed geometry
    coords = np.array([[0, 0, 0], [1.0, 0, 0], [0, 1.3, 0], [0, 0, 1.7]], dtype=float)[:n]
    geo = Geometry(els, coords)
    C = MolGraph if cls == 0 else StereoMolGraph
    try:
        g = C.from_geometry(geo)
    except Exception as e:
        if cls == 1:
            return None      # perception on arbitrary clusters may reject (C07 covers templates)
        return f"from_geometry raised {type(e).__name__}: {e}"
    m = BondsFromDistance().array(geo.coords, geo.atom_types)
    if not (m == m.T).all() or m.diagonal().any():
        return f"connectivity not symmetric / has self bonds: {m.tolist()}"
    dist = np.sqrt(((coords[:, None, :] - coords[None, :, :]) ** 2).sum(-1))
    for i in range(n):
        for j in range(n):
            exp = 1 if (i != j and dist[i, j] < 1.2 * (COVALENT_RADII[els[i]] + COVALENT_RADII[els[j]])) else 0
            if abs(dist[i, j] - 1.2 * (COVALENT_RADII[els[i]] + COVALENT_RADII[els[j]])) > 1e-9 and int(m[i, j]) != exp:
                return f"entry ({i},{j}) = {m[i, j]} but distance {dist[i, j]} vs cutoff {1.2 * (COVALENT_RADII[els[i]] + COVALENT_RADII[els[j]])}"
    exp_bonds = {frozenset((i, j)) for i in range(n) for j in range(i + 1, n) if m[i, j]}
    if set(g.bonds) != exp_bonds or list(g.atoms) != list(range(n)) or tuple(g.atom_types) != tuple(els):
        return f"graph bonds {set(g.bonds)} != strict upper triangle {exp_bonds}"
    # the same Geometry object, edited in place between two calls (rigid shift, then a stretch by 3), against a fresh object with the same data
    for step, edit in (("shifted", lambda c: c.__iadd__(np.array([5.0, -3.0, 2.0]))), ("stretched x3", lambda c: c.__imul__(3.0))):
        edit(geo.coords)
        try:
            g_same = MolGraph.from_geometry(geo)
            g_fresh = MolGraph.from_geometry(Geometry(list(els), np.array(geo.coords, dtype=float).copy()))
        except Exception as e:
            return f"from_geometry after in-place edit ({step}) raised {type(e).__name__}: {e}"
        if set(g_same.bonds) != set(g_fresh.bonds):
            return (f"Geometry edited in place ({step}) and converted again: bonds {sorted(map(sorted, g_same.bonds))}, a fresh Geometry with the same "
                    f"coordinates gives {sorted(map(sorted, g_fresh.bonds))}")
    return None


CHAIN_SIZES = [2, 5, 17, 63, 64, 65, 127, 128, 129, 131, 192, 255, 256, 257, 300]


def chain_body(ni, pat, order):
    """larger systems: a zig-zag chain of CHAIN_SIZES[ni] atoms (only consecutive atoms are within the cutoff, in three element patterns), listed
    in chain order, reversed, or in a seeded random order: connectivity matrix = the O(n^2) definition, graph bonds = its upper triangle"""
    import random
    from stereomolgraph.coords import BondsFromDistance, Geometry
    from stereomolgraph.graphs.mg import MolGraph
    from stereomolgraph.periodic_table import COVALENT_RADII
    n = CHAIN_SIZES[ni]
    els = [[6], [6, 8], [6, 6, 16, 7]][pat]
    els = [els[i % len(els)] for i in range(n)]
    pos = np.array([[1.26 * i, 0.8 * (i % 2), 0.05 * (i % 3)] for i in range(n)], float)
    idx = list(range(n))
    if order == 1:
        idx.reverse()
    elif order == 2:
        random.Random(n * 31 + pat).shuffle(idx)
    els = [els[i] for i in idx]
    pos = pos[idx]
    m = BondsFromDistance().array(pos, els)
    dist = np.sqrt(((pos[:, None, :] - pos[None, :, :]) ** 2).sum(-1))
    rad = np.array([COVALENT_RADII[e] for e in els])
    exp = ((dist < 1.2 * (rad[:, None] + rad[None, :])) & ~np.eye(n, dtype=bool)).astype(int)
    if m.shape != (n, n) or (np.asarray(m) != exp).any():
        bad = np.argwhere(np.asarray(m) != exp)[:3].tolist() if m.shape == (n, n) else m.shape
        return f"chain of {n} atoms (pattern {pat}, order {order}): connectivity differs from the pairwise definition at {bad}; {int(exp.sum()) // 2} bonds expected, {int(np.asarray(m).sum()) // 2} found"
    if int(exp.sum()) // 2 != n - 1:
        return f"harness error: chain of {n} atoms has {int(exp.sum()) // 2} bonds"
    g = MolGraph.from_geometry(Geometry(els, pos))
    if set(g.bonds) != {frozenset((int(i), int(j))) for i, j in np.argwhere(np.triu(exp, 1))} or list(g.atoms) != list(range(n)):
        return f"chain of {n} atoms: graph bonds are not the upper triangle of the connectivity"
    return None


def near_cutoff(e0, e1, delta, tmag, axis, direction):
    """two atoms at distance cutoff +- delta, the pair translated by up to 1e6 along an axis: the connectivity is that of the untranslated pair
    (the pair is 1e-6 .. 1e-3 A away from the threshold, i.e. many orders of magnitude above the resolution of float64 at 1e6)"""
    from stereomolgraph.coords import BondsFromDistance
    from stereomolgraph.periodic_table import COVALENT_RADII
    small = [1, 6, 8, 17, 35, 78]
    els = [small[e0], small[e1]]
    cut = 1.2 * (COVALENT_RADII[els[0]] + COVALENT_RADII[els[1]])
    d = cut + [-1e-3, -1e-4, -1e-5, -1e-6, 1e-6, 1e-5, 1e-4, 1e-3][delta]
    dirs = [np.array([1.0, 0, 0]), np.array([0, 1.0, 0]), np.array([0.6, 0.8, 0.0]), np.array([1.0, 2.0, 2.0]) / 3.0]
    base = np.array([[0.0, 0.0, 0.0], list(dirs[direction] * d)])
    T = [0.0, 1e3, 1e5, 1e6, -1e6][tmag]
    shift = [np.array([T, 0, 0]), np.array([0, T, 0]), np.array([0, 0, T]), np.array([T, T, T]), np.array([T, -T, 0.5 * T]), np.array([0.3 * T, T, -0.7 * T])][axis]
    exp = 1 if d < cut else 0
    for pts in (base, base + shift, base[::-1] + shift):
        m = BondsFromDistance().array(pts, els)
        if int(m[0, 1]) != exp or int(m[1, 0]) != exp or m[0, 0] or m[1, 1]:
            return f"pair {els} at distance cutoff{d - cut:+.0e} translated by {shift.tolist()}: connectivity {m.tolist()}, expected bond={exp}"
    return None


def plan(tier, seed):
    units = []
    units.append(Sel(name="near_cutoff_translated", func="vp.props.C20:near_cutoff",
                     params={"e0": (0, 6), "e1": (0, 6), "delta": (0, 8), "tmag": (0, 5), "axis": (0, 6), "direction": (0, 4)},
                     pre=["e0 <= e1"] + (["e0 in (0, 1, 5)", "direction in (0, 3)"] if tier == "quick" else []), shard_by=[], timeout=1200, nontrivial="tmag > 0"))
    if tier == "quick":
        params = {"n": (1, 4), "e0": (0, len(E0_QUICK)), "e1": (0, 2), "e2": (0, 2), "c0": (0, len(CORNERS)), "c1": (0, 3), "c2": (0, 3),
                  "com": (0, len(COMMENTS)), "which": (0, 3)}
        pre = ["n > 1 or e1 == 0", "n > 2 or e2 == 0", "com % 4 == 0 or c0 == 8 or (com > 7 and c0 == 1)", "e0 < 1 or (c1 == 0 and c2 == 0 and which == 0)", "c1 == 0 or c2 == 0 or which == 0"]
        units.append(Sel(name="xyz_text", func="vp.props.C20:text_body", params=params, pre=pre, shard_by=["n"], timeout=1500, nontrivial="c0 > 1"))
    else:
        params = {"n": (1, 4), "e0": (0, len(E0_QUICK)), "e1": (0, 4), "e2": (0, 3), "c0": (0, len(CORNERS)), "c1": (0, 4), "c2": (0, 4),
                  "com": (0, len(COMMENTS)), "which": (0, 4)}
        pre = ["n > 1 or e1 == 0", "n > 2 or e2 == 0", "e0 < 3 or (c1 == 0 and c2 == 0 and which == 0)", "c1 == 0 or c2 == 0 or which == 0",
               "com % 3 == 0 or c0 in (1, 8)", "e1 in (0, 3) or c0 == 0"]
        units.append(Sel(name="xyz_text", func="vp.props.C20:text_body", params=params, pre=pre, shard_by=["n"], timeout=1500, nontrivial="c0 > 1"))
        units.append(Sel(name="xyz_text_all_elements", func="vp.props.C20:text_body_all", timeout=1500, shard_by=["n"],
                         params={"n": (1, 3), "e0": (0, 118), "e1": (0, 2), "e2": (0, 1), "c0": (0, len(CORNERS)), "c1": (0, 1), "c2": (0, 1), "com": (0, 2), "which": (0, 1)},
                         pre=["n > 1 or e1 == 0", "c0 in (0, 8, 11)"]))
    gp = {"n": (1, 5), "e0": (0, 6), "e1": (0, 6), "e2": (0, 6), "e3": (0, 6), "d01": (0, 1), "d02": (0, 1), "d03": (0, 1), "d12": (0, 1), "d13": (0, 1),
          "d23": (0, 1), "cls": (0, 2)}
    gpre = ["n > 1 or e1 == 0", "n > 2 or e2 == 0", "n > 3 or e3 == 0"] + (["e3 in (0, 5)", "e2 in (0, 1, 3)"] if tier == "quick" else [])
    if tier == "quick":
        gp["e0"] = (0, 2)
    units.append(Sel(name="from_geometry", func="vp.props.C20:graph_body", params=gp, pre=gpre, shard_by=["n"], timeout=1500, nontrivial="n > 1"))
    units.append(Sel(name="chains", func="vp.props.C20:chain_body", params={"ni": (0, len(CHAIN_SIZES)), "pat": (0, 3), "order": (0, 3)}, pre=[], shard_by=[],
                     timeout=1200, nontrivial="ni > 2"))
    units.append(Nat(name="distance_kernel", func="vp.shadow.geomlemmas:run_c20", timeout=1500))
    return units


MANIFEST = {
    "text": "(a) z3 proves on the real pairwise_distances / BondsFromDistance.array, executed on symbolic real coordinates, that the connectivity matrix is symmetric, "
            "has a zero diagonal, has entry (i,j) = 1 exactly when d_ij^2 < cutoff_ij^2 and is invariant under translation, axis rotations, reflection and atom "
            "permutation - for all real coordinates of up to 3 (thorough 4) atoms; (b) bounded model checking of the XYZ writer / reader: z3 enumerates atom count, "
            "elements (all 118), corner coordinate values and comment lines, the real xyz_str and from_xyz are executed and compared with the 8-decimal rounding; "
            "MolGraph.from_geometry must turn exactly the strict upper triangle into bonds.",
    "note": "Trusted: z3 (nlsat) for the polynomial identities, the shadow real-number wrapper (validated against float runs), CrossHair path exhaustion. "
            "The 'every float' part of the text round trip is outside (C code); corner values only.",
    "technique": "z3 proofs over the shadow-executed real numpy kernels (all real coordinates) + CrossHair/z3 bounded model checking of the XYZ text path",
}
