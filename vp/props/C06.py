"""C06 - enantiomer() is the mirror image (DESIGN.md §5 C06)."""
from __future__ import annotations

from vp.lib import eqfam, eqlib, fam, gl, iso, oracle
from vp.props import C01
from vp.runner import Sel

FILES = ["src/stereomolgraph/graphs/smg.py", "src/stereomolgraph/graphs/scrg.py", "src/stereomolgraph/stereodescriptors.py"]
FUNCTIONS = ["StereoMolGraph.enantiomer", "StereoCondensedReactionGraph.enantiomer", "_StereoMixin.invert", "__eq__ of the stereo classes"]
BOUNDS = {"quick": "SMG / SCRG graphs of the small family over {0,1,2} (descriptors with placeholders, unspecified parity, stereo changes) and templates star4 (Tet/SP), "
                   "lonepair, dbond (PlanarBond / AtropBond), ring4, sn2 with every listed ordering / parity / change variant; every graph also after it has been compared (both sides) and hashed; octahedral / TBP centres with repeated ligands (MA2B2C2, MA3B3, MA2B2CD; MA2B3, MA2BCD), strided orderings",
          "thorough": "all decorations; templates twocentre (meso forms), star5 (TBP), star6 (Oct)"}
OUTSIDE = "graphs larger than the templates (8 atoms; biatrop 11 atoms)"
ASSUMPTIONS = ["mirror image built by the oracle (parity flip of chiral descriptors with specified parity), chirality decided by brute-force search for an isomorphism onto it"]


def _check(spec):
    if not gl.is_stereo(spec["cls"]):
        return None
    for used in (False, True):
        msg = _check1(spec, used)
        if msg:
            return msg if not used else f"[graph compared (both sides) and hashed before enantiomer() was taken] {msg}"
    return None


def _check1(spec, used):
    g = gl.build(spec)
    if used:
        # state accumulated on the graph or on its descriptor objects by earlier comparisons must not leak into the mirror image
        try:
            other = gl.build(spec)
            _ = (other == g), (g == other), hash(g), hash(other)
        except Exception:
            pass
    s0 = gl.snap(g)
    try:
        e = g.enantiomer()
    except Exception as ex:
        return f"enantiomer() raised {type(ex).__name__}: {ex}"
    if e is g:
        return "enantiomer() returned the original object"
    if type(e) is not type(g):
        return f"enantiomer() returned a {type(e).__name__}"
    d = gl.diff(gl.snap(g), s0)
    if d:
        return f"enantiomer() modified the original: {d}"
    se = gl.snap(e)
    exp = iso.mirror_snap(s0)
    for key in s0:
        if key in ("astereo", "bstereo"):
            if set(se[key]) != set(exp[key]):
                return f"enantiomer: {key} keys differ: {se[key]} vs expected {exp[key]}"
            for k, d_exp in exp[key].items():
                d_real = se[key][k]
                if d_exp[2] is None or not oracle.CHIRAL[d_exp[0]]:
                    if d_real != s0[key][k]:
                        return f"enantiomer changed an achiral / unspecified descriptor {s0[key][k]} -> {d_real}"
                elif not oracle.desc_equal(d_real, d_exp) or d_real[0] != d_exp[0] or oracle.desc_equal(d_real, s0[key][k]) and not _self_mirror(d_exp):
                    return f"enantiomer: chiral descriptor {s0[key][k]} became {d_real}, not its mirror image"
        elif key in ("achg", "bchg"):
            if set(se[key]) != set(exp[key]):
                return f"enantiomer: {key} keys differ: {se[key]} vs expected {exp[key]}"
            for k, cd_exp in exp[key].items():
                cd_real = se[key][k]
                if set(cd_real) != set(cd_exp):
                    return f"enantiomer: change slots of {k} differ: {cd_real} vs {cd_exp}"
                for c, d_exp in cd_exp.items():
                    d_real = cd_real[c]
                    if d_exp[2] is None or not oracle.CHIRAL[d_exp[0]]:
                        if d_real != s0[key][k][c]:
                            return f"enantiomer changed an achiral / unspecified descriptor in a stereo change: {s0[key][k][c]} -> {d_real}"
                    elif not oracle.desc_equal(d_real, d_exp) or d_real[0] != d_exp[0]:
                        return f"enantiomer: chiral descriptor in stereo change {k}[{c}] {s0[key][k][c]} became {d_real}, not its mirror image"
        elif se[key] != s0[key]:
            return f"enantiomer changed view '{key}': {s0[key]} -> {se[key]}"
    # twice
    try:
        ee = e.enantiomer()
    except Exception as ex:
        return f"enantiomer().enantiomer() raised {type(ex).__name__}: {ex}"
    d = gl.diff(gl.snap(ee), s0)
    if d:
        return f"enantiomer twice is not identical to the original: {d}"
    # chirality
    if iso.fully_specified(s0) and iso.stereo_valid(s0):
        real = (g == e)
        real2 = (e == g)
        orc = iso.isomorphic(s0, exp)
        if real != orc or real2 != orc:
            return f"g == g.enantiomer() is {real} (reverse {real2}) but a structure-preserving bijection onto the mirror image {'exists' if orc else 'does not exist'}"
    return None


def _self_mirror(d):
    """a descriptor with duplicate placeholders can coincide with its own mirror image"""
    return oracle.desc_equal(d, oracle.mirror(d))


def small3(cls, **sel):
    return _check(fam.decode(gl.CLS_NAMES[cls], 3, sel))


def small4(cls, **sel):
    return _check(fam.decode(gl.CLS_NAMES[cls], 4, sel))


def template(t, cls, **sel):
    return _check(eqfam.template_spec(C01.TNAMES[t], gl.CLS_NAMES[cls], sel))


def biatrop(par, mixed, zsame, cls):
    """(round 3) meso / chiral molecule with two atrop axes, the second one optionally written in the other equivalent notation; both notations must behave alike"""
    from vp.lib import tmpl
    spec = tmpl.biatrop(gl.CLS_NAMES[cls], 1 if par else -1, mixed, zsame)
    msg = _check(spec)
    if msg:
        return msg
    other = tmpl.biatrop(gl.CLS_NAMES[cls], 1 if par else -1, not mixed, zsame)
    ga, gb = gl.build(spec), gl.build(other)
    if not (ga == gb and gb == ga) or not (ga.enantiomer() == gb.enantiomer()):
        return "the two equivalent notations of the second atrop axis give unequal graphs / unequal enantiomers"
    return None


def plan(tier, seed):
    units = [u for u in eqlib.family_units(tier, "vp.props.C06") if u.name.split("_")[-1] in ("SMG", "SCRG")]
    from vp.runner import Sel as _Sel
    units.append(_Sel(name="biatrop", func="vp.props.C06:biatrop", params={"par": "bool", "mixed": "bool", "zsame": "bool", "cls": (1, 4)}, pre=["cls != 2"],
                      shard_by=[], timeout=900))
    if tier == "quick":
        # octahedral / trigonal bipyramidal centres with repeated ligands (achiral and chiral arrangements of MA2B2C2, MA3B3, MA2B2CD, MA2B3): strided orderings
        from vp.runner import Sel
        for n, stride, ligs in (("star6", 16, "(1, 2, 4)"), ("star5", 6, "(1, 3)")):
            for (nn, c, p, pr) in eqfam.template_units([n], classes=("SMG",)):
                params = {"t": (C01.TNAMES.index(n), C01.TNAMES.index(n) + 1), "cls": (1, 2)}
                params.update(p)
                units.append(Sel(name=f"{n}_repeated_ligands_SMG", func="vp.props.C06:template", params=params,
                                 pre=list(pr) + [f"lig in {ligs}", f"order % {stride} == 0", "par < 2", "chg == 0"], shard_by=[], timeout=1500))
    return units


MANIFEST = {
    "text": "Bounded model checking: z3 enumerates every stereo graph of the small family and every template instance (all six descriptor classes, descriptors "
            "inside broken / formed / fleeting stereo changes, meso and chiral ligand patterns); enantiomer() is executed on the real classes and compared "
            "view by view with an oracle-built mirror image (chiral descriptors inverted modulo rotation groups, everything else identical, original untouched, "
            "twice = identical); g == enantiomer(g) must coincide with a brute-force search for a bijection onto the mirror image.",
    "note": "Trusted: CrossHair path exhaustion, z3, rotation-group oracle (tied to the code by C04), brute-force isomorphism oracle.",
    "technique": "CrossHair symbolic execution with z3 (solver-enumerated bounded stereo graphs, real code per path) against mirror-image and brute-force isomorphism oracles",
}
