"""C14 - stereo from RDKit annotations agrees with stereo from 3D coordinates (DESIGN.md §5 C14; the real RDKit runs natively).

Engine A-sel: z3 enumerates the centre class, the placement of pairwise distinct ligands on the vertices of the idealised figure (with real
bond lengths), the bond insertion order (= RDKit neighbour order), a rigid motion and a noise pattern.  RDKit itself assigns the chiral tag /
permutation label (or Z/E) from the 3-D conformer (AssignStereochemistryFrom3D); the real importer turns that annotation into a descriptor;
the real perception turns the same coordinates into a descriptor; the two must be equal and the two graphs must compare equal."""
from __future__ import annotations

import itertools

import numpy as np
from rdkit import Chem
from rdkit.Chem import rdMolTransforms  # noqa: F401

from vp.lib import geom, gl, oracle, rdk
from vp.props import C07, C12
from vp.runner import Sel

FILES = ["src/stereomolgraph/rdmol2graph.py", "src/stereomolgraph/xyz2graph.py", "src/stereomolgraph/coords.py", "src/stereomolgraph/graphs/smg.py"]
FUNCTIONS = ["RDMol2StereoMolGraph.smg_from_rdmol (tag / label tables)", "_rd_tetrahedral", "handedness", "_tetrahedral_from_coords", "_square_planar_from_coords",
             "_trigonal_bipyramidal_from_coords", "_octahedral_from_coords", "_planar_bond_from_coords", "StereoMolGraph.from_geometry"]
BOUNDS = {"quick": "single centre of class Tet / SP / TBP / Oct with pairwise distinct monoatomic ligands: every placement for Tet/SP, strided for TBP/Oct; 6 bond insertion orders; "
                   "4 cube rotations x reflection; 3 noise patterns (eps 0.03 A); one double bond XYC=CZW: both isomers, all substituent placements; "
                   "embedded_molecules: 48 organic molecules (C, H, N, O, S, halogens; 0-3 tetrahedral centres, 0-2 stereogenic double bonds, ring double bonds in 3..6-rings, "
                   "aromatic ring, amide, sulfone, ammonium) x every stereoisomer RDKit enumerates (about 110 cases) x 3 ETKDG seeds x up to 3 atom renumberings, converter options "
                   "stereo_complete=True, lone_pair_stereo=False, resonance=True (those of the repository's own consistency test)",
          "thorough": "all placements of TBP, 180 of Oct; 24 insertion orders; 6 noise patterns; embedded_molecules with 12 seeds x 6 renumberings"}
OUTSIDE = ("organic molecules other than the 48 listed ones, other embedding seeds; seeds for which neither the raw ETKDG conformer nor its force-field relaxed "
           "version passes the independent admissibility oracle (bond / contact distances with margin, non-flat four-coordinate atoms, planar double-bond frames) are skipped: "
           "6 of 7488 in the thorough tier (1-fluoro-2-chlorocyclopropene, where MMFF bends the substituents out of plane); "
           "all-real-coordinates version of the sign conventions (engine B) not built")
ASSUMPTIONS = ["RDKit's AssignStereochemistryFrom3D is the environment's ground truth for the annotation of a 3-D arrangement"]

KINDS = C07.KINDS


def centre(kind, pl, oi, rot, mirror, noise):
    from stereomolgraph.coords import Geometry
    from stereomolgraph.graphs.smg import StereoMolGraph
    kn = KINDS[kind]
    k = oracle.ARITY[kn] - 1
    placement = list(itertools.permutations(range(1, k + 1)))[pl]
    els, xyz = C07.template_geometry(kn, placement)
    pats = geom.noise_patterns(k + 1, 0.03, 6, seed=5)
    M = geom.CUBE[rot] @ (geom.MIRROR if mirror else np.eye(3))
    xyz = (xyz + pats[noise]) @ M.T + np.array([1.5, -2.0, 0.25])
    order = list(itertools.permutations(range(1, k + 1)))[oi]
    m = rdk.star_mol(kn, order, label=1, lig_elems=els[1:]) if kn != "Tet" else rdk.star_mol(kn, order, lig_elems=els[1:])
    m.GetAtomWithIdx(0).SetChiralTag(Chem.ChiralType.CHI_UNSPECIFIED)
    if m.GetAtomWithIdx(0).HasProp("_chiralPermutation"):
        m.GetAtomWithIdx(0).ClearProp("_chiralPermutation")
    m = rdk.with_conformer(m, xyz)
    Chem.SanitizeMol(m, Chem.SanitizeFlags.SANITIZE_ALL ^ Chem.SanitizeFlags.SANITIZE_PROPERTIES)
    mm = rdk.assign_from_3d(m)
    tag, lab = rdk.label_of(mm)
    if kn == "Tet" and tag not in (Chem.ChiralType.CHI_TETRAHEDRAL_CW, Chem.ChiralType.CHI_TETRAHEDRAL_CCW):
        return f"harness error: RDKit assigned {tag} to the tetrahedral template"
    if kn != "Tet" and (tag != rdk.TAGS[kn] or lab is None):
        return f"harness error: RDKit assigned {tag}/{lab} to the {kn} template"
    g_rd = C12._import(mm)
    g_3d = StereoMolGraph.from_geometry(Geometry(els, xyz))
    s_rd, s_3d = gl.snap(g_rd), gl.snap(g_3d)
    if set(s_rd["bonds"]) != set(s_3d["bonds"]):
        return f"connectivity differs: RDKit {set(s_rd['bonds'])} vs distance-based {set(s_3d['bonds'])}"
    d_rd, d_3d = s_rd["astereo"].get(0), s_3d["astereo"].get(0)
    if d_rd is None or d_3d is None:
        return f"missing descriptor: from annotation {d_rd}, from coordinates {d_3d}"
    if d_rd[0] != d_3d[0] or not oracle.desc_equal(d_rd, d_3d) or not (g_rd.get_atom_stereo(0) == g_3d.get_atom_stereo(0)):
        return (f"{kn} placement {placement}, neighbour order {order}, RDKit label {tag}/{lab}: descriptor from annotation {d_rd} != descriptor "
                f"perceived from the same coordinates {d_3d}")
    if not (g_rd == g_3d):
        return "graphs from annotation and from coordinates compare unequal"
    return None


def dbond(sub_pl, ez, oi, rot, mirror, noise):
    """XYC=CZW planar; RDKit assigns Z/E from 3-D; importer vs _planar_bond_from_coords"""
    from stereomolgraph.coords import Geometry
    from stereomolgraph.graphs.smg import StereoMolGraph
    subs = list(itertools.permutations(("H", "F", "Cl", "Br")))[sub_pl]
    els, xyz = geom.ethene(subs, flip_end=bool(ez))
    pats = geom.noise_patterns(6, 0.03, 6, seed=9)
    M = geom.CUBE[rot] @ (geom.MIRROR if mirror else np.eye(3))
    xyz = (xyz + pats[noise] * np.array([1, 1, 0.3])) @ M.T + np.array([-0.5, 2.0, 1.0])
    order = list(itertools.permutations(range(5)))[oi * 11 % 120]
    m = rdk.ethene_mol(order, None, None, subs=subs)
    m = rdk.with_conformer(m, xyz)
    Chem.SanitizeMol(m)
    mm = rdk.assign_from_3d(m)
    b = mm.GetBondBetweenAtoms(2, 3)
    if b.GetStereo() not in (Chem.BondStereo.STEREOZ, Chem.BondStereo.STEREOE):
        return f"harness error: RDKit assigned {b.GetStereo()} to the double bond"
    g_rd = C12._import(mm)
    g_3d = StereoMolGraph.from_geometry(Geometry(els, xyz))
    key = (2, 3)
    d_rd, d_3d = gl.snap(g_rd)["bstereo"].get(key), gl.snap(g_3d)["bstereo"].get(key)
    if d_rd is None or d_3d is None:
        return f"missing PlanarBond: annotation {d_rd}, coordinates {d_3d}"
    if not oracle.desc_equal(d_rd, d_3d):
        return f"double bond {subs} {'E' if ez else 'Z'}-placement: from annotation {d_rd} != from coordinates {d_3d}"
    # the perceived graph also carries conformational PlanarBonds on other bonds; compare after removing them (property text)
    for g in (g_rd, g_3d):
        for bb in list(g.bond_stereo):
            if set(bb) != {2, 3}:
                g.delete_bond_stereo(bb)
    if not (g_rd == g_3d):
        return "graphs (PlanarBonds on other bonds removed) compare unequal"
    return None


# ---------------------------------------------------------------------------------------------------------------------------------------------
# whole organic molecules: annotation graph vs graph perceived from an embedded conformer (first sentence of the property)
FLAT = ["FC(Cl)Br", "CC(O)CC", "CC(N)C(=O)O", "FC=CCl", "CC=CC", "CC(F)C=CCl", "CC(F)C(Cl)C", "CC(F)C(Cl)C(Br)C", "C1=CC1", "C1=CCC1", "C1=CCCC1", "C1=CCCCC1",
        "CC1=CC1", "FC1=C(Cl)C1", "CC1CC=CC1", "OC1CCCC1F", "CC1CC1F", "FC1(Cl)CC1Br", "CC(=O)N", "c1ccccc1", "CC=O", "OC(=O)C=CC(=O)O", "CC(Cl)C#N", "FC=CC=CCl",
        "NC(CS)C(=O)O", "CN(C)C", "CNC=O", "C[N+](C)(C)C", "CS(C)(=O)=O", "ClC(Cl)=C(F)Br", "CC(O)C(F)=CC", "OC1C=CC(F)C1", "CC(Cl)C1=CC1", "FC(Cl)C(F)Cl",
        "CC(Br)c1ccccc1", "OC(=O)C(O)C(O)C(=O)O", "CC=CC(C)=CC", "C1=CC=CC1", "CSC(C)N", "ClC=CC(F)C=CBr",
        # round 3: ring double bonds whose substituent lies in another ring of the same size (two spellings), alkylidene three-rings
        "C1CCC2=C(CCCC2)C1", "C1CCC2=C(C1)CCCC2", "C1(=CCCCC1)c1ccccc1", "C1(=CCCC1)C1CCCC1", "C=C1CC1", "CC=C1CC1", "FC=C1CC1", "C1CC2=C(C1)CCC2"]


def _cases():
    """(flat SMILES, isomer SMILES) for every stereoisomer RDKit enumerates; deterministic (sorted)"""
    from rdkit.Chem.EnumerateStereoisomers import EnumerateStereoisomers, StereoEnumerationOptions
    out = []
    for flat in FLAT:
        m = Chem.MolFromSmiles(flat)
        isos = sorted({Chem.MolToSmiles(x) for x in EnumerateStereoisomers(m, options=StereoEnumerationOptions(unique=True, onlyUnassigned=True))})
        out.extend((flat, i) for i in isos)
    return out


_CASES = None


def cases():
    global _CASES
    if _CASES is None:
        _CASES = _cases()
    return _CASES


def _admissible(m):
    pt = Chem.GetPeriodicTable()
    X = m.GetConformer().GetPositions()
    n = m.GetNumAtoms()
    r = [pt.GetRcovalent(a.GetAtomicNum()) for a in m.GetAtoms()]
    for i in range(n):
        for j in range(i + 1, n):
            d = float(np.linalg.norm(X[i] - X[j]))
            if m.GetBondBetweenAtoms(i, j) is not None:
                if d > 1.12 * (r[i] + r[j]):
                    return False
            elif d < 1.28 * (r[i] + r[j]):
                return False
    for a in m.GetAtoms():
        nb = [x.GetIdx() for x in a.GetNeighbors()]
        if len(nb) == 4:
            v = [(X[k] - X[a.GetIdx()]) / np.linalg.norm(X[k] - X[a.GetIdx()]) for k in nb]
            for t in itertools.combinations(range(4), 3):
                if abs(float(np.linalg.det(np.array([v[t[0]], v[t[1]], v[t[2]]])))) < (0.22 if a.IsInRingSize(3) else 0.4):   # 60 degree ring angle: bulk of ETKDG conformers 0.26-0.45, flattened ones below 0.12
                    return False
    for b in m.GetBonds():      # frame of a formal double bond: every substituent torsion within 15 degrees of 0 / 180
        if b.GetBondType() == Chem.BondType.DOUBLE:
            i, j = b.GetBeginAtomIdx(), b.GetEndAtomIdx()
            for p in (x.GetIdx() for x in b.GetBeginAtom().GetNeighbors() if x.GetIdx() != j):
                for q in (x.GetIdx() for x in b.GetEndAtom().GetNeighbors() if x.GetIdx() != i):
                    t = abs(Chem.rdMolTransforms.GetDihedralDeg(m.GetConformer(), p, i, j, q))
                    if min(t, 180.0 - t) > 15.0:
                        return False
    return True


SKIPPED = []


def embedded(case, seed, ren):
    """stereo-annotated molecule with explicit H -> (a) real importer on the annotations, (b) RDKit ETKDG embedding with the given seed -> real perception
    from the coordinates; conformational PlanarBonds (bonds that are not formal double bonds) removed from both; connectivity, every tetrahedral parity,
    every E/Z (incl. ring double bonds, which the importer takes as cis) must agree: the graphs compare equal"""
    import random
    from rdkit.Chem import rdDistGeom
    from stereomolgraph.coords import Geometry
    from stereomolgraph.graphs.smg import StereoMolGraph
    from stereomolgraph.rdmol2graph import RDMol2StereoMolGraph
    flat, smi = cases()[case]
    m = Chem.AddHs(Chem.MolFromSmiles(smi))
    if ren:
        order = list(range(m.GetNumAtoms()))
        random.Random(1000 * case + ren).shuffle(order)
        m = Chem.RenumberAtoms(m, order)
    if any(lab == "?" for _, lab in Chem.FindMolChiralCenters(Chem.Mol(m), includeUnassigned=True, useLegacyImplementation=True)):
        return "harness error: stereoisomer with an unassigned centre"
    if rdDistGeom.EmbedMolecule(m, randomSeed=0xF00D + 17 * seed) != 0:
        return "harness error: embedding failed"
    # Raw distance-geometry conformers occasionally have a flattened CH2 group or an H...H contact below the bonding cut-off (6 of 6912 in the build sweep).
    # Conformer admissibility is decided by an oracle that uses nothing of the code under test (RDKit's covalent radii with a margin on both sides of the
    # 1.2 x cut-off; every triple of unit bond vectors of a four-coordinate atom spans a volume > 0.4, ideal 0.77 (> 0.22 for atoms of a three-membered ring, where ETKDG conformers give 0.26-0.45); substituent torsions of formal double bonds within 15 degrees of 0 / 180): an inadmissible raw conformer is
    # replaced by its force-field relaxed version (MMFF94 / UFF); if that is inadmissible too the seed yields no conformer of the kind the property talks about and is skipped.
    if not _admissible(m):
        from rdkit.Chem import rdForceFieldHelpers as ff
        if ff.MMFFHasAllMoleculeParams(m):
            ff.MMFFOptimizeMolecule(m, maxIters=2000)
        else:
            ff.UFFOptimizeMolecule(m, maxIters=2000)
        if not _admissible(m):
            SKIPPED.append((case, seed, ren))       # no sensible conformer from this seed (force-field artefact on a strained ring): nothing to compare
            return None
    # the embedded conformer must realise the annotated isomer (environment sanity: RDKit's own perception from 3-D gives the same canonical SMILES)
    m3 = Chem.Mol(m)
    Chem.AssignStereochemistryFrom3D(m3)
    if Chem.MolToSmiles(Chem.RemoveHs(m3)) != Chem.MolToSmiles(Chem.RemoveHs(m)):
        return "harness error: embedded conformer is a different stereoisomer for RDKit"
    try:
        g_rd = RDMol2StereoMolGraph(stereo_complete=True, use_atom_map_number=False, lone_pair_stereo=False, resonance=True)(m)
        els = [a.GetSymbol() for a in m.GetAtoms()]
        g_3d = StereoMolGraph.from_geometry(Geometry(els, m.GetConformer().GetPositions()))
    except Exception as e:
        return f"{smi}: raised {type(e).__name__}: {e}"
    b_rd, b_3d = {frozenset(b) for b in g_rd.bonds}, {frozenset(b) for b in g_3d.bonds}
    if b_rd != b_3d:
        return f"{smi} seed {seed}: connectivity differs: only annotation {sorted(map(sorted, b_rd - b_3d))}, only coordinates {sorted(map(sorted, b_3d - b_rd))}"
    formal = {frozenset((b.GetBeginAtomIdx(), b.GetEndAtomIdx())) for b in m.GetBonds() if b.GetBondType() == Chem.BondType.DOUBLE and not b.GetIsAromatic()}
    for g in (g_rd, g_3d):
        for bb in list(g.bond_stereo):
            if frozenset(bb) not in formal:
                g.delete_bond_stereo(bb)
    s_rd, s_3d = gl.snap(g_rd), gl.snap(g_3d)
    for a in sorted(set(s_rd["astereo"]) | set(s_3d["astereo"])):
        d1, d2 = s_rd["astereo"].get(a), s_3d["astereo"].get(a)
        if d1 is None or d2 is None or d1[0] != d2[0]:
            return f"{smi} seed {seed} ren {ren}: atom {a}: from annotation {d1}, from coordinates {d2}"
    for b in sorted(formal, key=sorted):
        k1 = [k for k in s_rd["bstereo"] if set(k) == set(b)]
        k2 = [k for k in s_3d["bstereo"] if set(k) == set(b)]
        d1 = s_rd["bstereo"][k1[0]] if k1 else None
        d2 = s_3d["bstereo"][k2[0]] if k2 else None
        if (d1 is None) != (d2 is None):
            return f"{smi} seed {seed} ren {ren}: double bond {sorted(b)}: from annotation {d1}, from coordinates {d2}"
        rb = m.GetBondBetweenAtoms(*sorted(b))
        if rb.GetStereo() in (Chem.BondStereo.STEREOZ, Chem.BondStereo.STEREOE) and d1 is not None and d1[2] is not None and d2[2] is not None and not oracle.desc_equal(d1, d2):
            return f"{smi} seed {seed} ren {ren}: double bond {sorted(b)}: E/Z from annotation {d1} != from coordinates {d2}"
    if not (g_rd == g_3d):
        return f"{smi} seed {seed} ren {ren}: graphs (conformational PlanarBonds removed) compare unequal: annotation {s_rd['astereo']} {s_rd['bstereo']} | coordinates {s_3d['astereo']} {s_3d['bstereo']}"
    if hash(g_rd) != hash(g_3d):
        return f"{smi} seed {seed} ren {ren}: equal graphs with different hashes"
    return None


def plan(tier, seed):
    units = []
    for ki, kn in enumerate(KINDS):
        k = oracle.ARITY[kn] - 1
        nperm = len(list(itertools.permutations(range(k))))
        params = {"kind": (ki, ki + 1), "pl": (0, nperm), "oi": (0, nperm), "rot": (0, 24), "mirror": "bool", "noise": (0, 3 if tier == "quick" else 6)}
        pre = ["rot in (0, 5, 14, 23)", f"oi % {max(1, nperm // (6 if tier == 'quick' else 24))} == 0"]
        if kn == "TBP":
            pre.append("pl % 10 == 0" if tier == "quick" else "pl % 3 == 0")
        if kn == "Oct":
            pre.append("pl % 180 == 7" if tier == "quick" else "pl % 24 == 7")
        if tier == "quick":
            pre.append("noise == 0 or (rot == 0 and not mirror)")
        else:
            pre.append("noise < 2 or rot == 0")
        units.append(Sel(name=f"centre_{kn}", func="vp.props.C14:centre", params=params, pre=pre, shard_by=["mirror"], timeout=1500, nontrivial="pl > 0", min_shard=16))
    units.append(Sel(name="double_bond", func="vp.props.C14:dbond",
                     params={"sub_pl": (0, 24), "ez": (0, 2), "oi": (0, 6 if tier == "quick" else 12), "rot": (0, 24), "mirror": "bool", "noise": (0, 3)},
                     pre=["rot in (0, 5, 14, 23)", "noise == 0 or rot == 0", "sub_pl % 2 == 0 or oi == 0"], shard_by=["ez"], timeout=1500, min_shard=16))
    nc = len(cases())
    units.append(Sel(name="embedded_molecules", func="vp.props.C14:embedded",
                     params={"case": (0, nc), "seed": (0, 3 if tier == "quick" else 12), "ren": (0, 3 if tier == "quick" else 6)},
                     pre=["seed == 0 or ren < 2"] if tier == "quick" else [], shard_by=["seed"], timeout=1500, min_shard=16))
    return units


MANIFEST = {
    "text": "Bounded model checking with the real RDKit: z3 enumerates centre class, placement of distinct ligands on the idealised vertices, bond insertion order, cube rotation, "
            "reflection and noise pattern; RDKit assigns CW/CCW, @SP/@TB/@OH labels or Z/E from the 3-D conformer; the descriptor imported from that annotation by the real table "
            "code must equal the descriptor perceived by the real coordinate code from the same coordinates (real ==, rotation-group oracle), and the graphs must compare equal.  Whole molecules: the solver "
            "enumerates (stereoisomer, embedding seed, renumbering); the graph imported from the annotations and the graph perceived from the embedded conformer must have the same "
            "connectivity, the same descriptor class on every atom, the same E/Z on every stereogenic double bond and compare equal (with equal hashes) once PlanarBonds on bonds "
            "that are not formal double bonds are removed.",
    "note": "Trusted: installed RDKit incl. AssignStereochemistryFrom3D (environment), CrossHair path exhaustion, z3. Partial claim: single centres / one double bond / the listed organic molecules with "
            "RDKit ETKDG conformers (RDKit embedding, MMFF/UFF relaxation and EnumerateStereoisomers are environment).",
    "technique": "CrossHair symbolic execution with z3 (solver-enumerated placements / orders / motions, real importer + perception + RDKit per path)",
}
