"""C14 - stereo from RDKit annotations agrees with stereo from 3D coordinates (DESIGN.md §5 C14; the real RDKit runs natively).

Engine A-sel: z3 enumerates the centre class, the placement of pairwise distinct ligands on the vertices of the idealised figure (with real
bond lengths), the bond insertion order (= RDKit neighbour order), a rigid motion and a noise pattern.  RDKit itself assigns the chiral tag /
permutation label (or Z/E) from the 3-D conformer (AssignStereochemistryFrom3D); the real importer turns that annotation into a descriptor;
the real perception turns the same coordinates into a descriptor; the two must be equal and the two graphs must compare equal."""
from __future__ import annotations

import itertools

import numpy as np
from rdkit import Chem

from vp.lib import geom, gl, oracle, rdk
from vp.props import C07, C12
from vp.runner import Sel

FILES = ["src/stereomolgraph/rdmol2graph.py", "src/stereomolgraph/xyz2graph.py", "src/stereomolgraph/coords.py", "src/stereomolgraph/graphs/smg.py"]
FUNCTIONS = ["RDMol2StereoMolGraph.smg_from_rdmol (tag / label tables)", "_rd_tetrahedral", "handedness", "_tetrahedral_from_coords", "_square_planar_from_coords",
             "_trigonal_bipyramidal_from_coords", "_octahedral_from_coords", "_planar_bond_from_coords", "StereoMolGraph.from_geometry"]
BOUNDS = {"quick": "single centre of class Tet / SP / TBP / Oct with pairwise distinct monoatomic ligands: every placement for Tet/SP, strided for TBP/Oct; 6 bond insertion orders; "
                   "4 cube rotations x reflection; 3 noise patterns (eps 0.03 A); one double bond XYC=CZW: both isomers, all substituent placements",
          "thorough": "all placements of TBP, 180 of Oct; 24 insertion orders; 6 noise patterns"}
OUTSIDE = ("embedded conformers of larger organic molecules, ring centres, adjacent centres, removal of conformational PlanarBonds (RDKit embedding / whole-molecule behaviour); "
           "all-real-coordinates version of the sign conventions (engine B) not built")
ASSUMPTIONS = ["RDKit's AssignStereochemistryFrom3D is the environment's ground truth for the annotation of a 3-D arrangement"]

KINDS = C07.KINDS


def centre(kind, pl, oi, rot, mirror, noise):
    from stereomolgraph.coords import Geometry
    from stereomolgraph.graphs.smg import StereoMolGraph
    kn = KINDS[kind]
    k = oracle.ARITY[kn] - 1
    placement = list(itertools.permutations(range(1, k + 1)))[pl]
    els, xyz = C07.template_geometry(kn, placement)
    pats = geom.noise_patterns(k + 1, 0.03, 6, seed=5)
    M = geom.CUBE[rot] @ (geom.MIRROR if mirror else np.eye(3))
    xyz = (xyz + pats[noise]) @ M.T + np.array([1.5, -2.0, 0.25])
    order = list(itertools.permutations(range(1, k + 1)))[oi]
    m = rdk.star_mol(kn, order, label=1, lig_elems=els[1:]) if kn != "Tet" else rdk.star_mol(kn, order, lig_elems=els[1:])
    m.GetAtomWithIdx(0).SetChiralTag(Chem.ChiralType.CHI_UNSPECIFIED)
    if m.GetAtomWithIdx(0).HasProp("_chiralPermutation"):
        m.GetAtomWithIdx(0).ClearProp("_chiralPermutation")
    m = rdk.with_conformer(m, xyz)
    Chem.SanitizeMol(m, Chem.SanitizeFlags.SANITIZE_ALL ^ Chem.SanitizeFlags.SANITIZE_PROPERTIES)
    mm = rdk.assign_from_3d(m)
    tag, lab = rdk.label_of(mm)
    if kn == "Tet" and tag not in (Chem.ChiralType.CHI_TETRAHEDRAL_CW, Chem.ChiralType.CHI_TETRAHEDRAL_CCW):
        return f"harness error: RDKit assigned {tag} to the tetrahedral template"
    if kn != "Tet" and (tag != rdk.TAGS[kn] or lab is None):
        return f"harness error: RDKit assigned {tag}/{lab} to the {kn} template"
    g_rd = C12._import(mm)
    g_3d = StereoMolGraph.from_geometry(Geometry(els, xyz))
    s_rd, s_3d = gl.snap(g_rd), gl.snap(g_3d)
    if set(s_rd["bonds"]) != set(s_3d["bonds"]):
        return f"connectivity differs: RDKit {set(s_rd['bonds'])} vs distance-based {set(s_3d['bonds'])}"
    d_rd, d_3d = s_rd["astereo"].get(0), s_3d["astereo"].get(0)
    if d_rd is None or d_3d is None:
        return f"missing descriptor: from annotation {d_rd}, from coordinates {d_3d}"
    if d_rd[0] != d_3d[0] or not oracle.desc_equal(d_rd, d_3d) or not (g_rd.get_atom_stereo(0) == g_3d.get_atom_stereo(0)):
        return (f"{kn} placement {placement}, neighbour order {order}, RDKit label {tag}/{lab}: descriptor from annotation {d_rd} != descriptor "
                f"perceived from the same coordinates {d_3d}")
    if not (g_rd == g_3d):
        return "graphs from annotation and from coordinates compare unequal"
    return None


def dbond(sub_pl, ez, oi, rot, mirror, noise):
    """XYC=CZW planar; RDKit assigns Z/E from 3-D; importer vs _planar_bond_from_coords"""
    from stereomolgraph.coords import Geometry
    from stereomolgraph.graphs.smg import StereoMolGraph
    subs = list(itertools.permutations(("H", "F", "Cl", "Br")))[sub_pl]
    els, xyz = geom.ethene(subs, flip_end=bool(ez))
    pats = geom.noise_patterns(6, 0.03, 6, seed=9)
    M = geom.CUBE[rot] @ (geom.MIRROR if mirror else np.eye(3))
    xyz = (xyz + pats[noise] * np.array([1, 1, 0.3])) @ M.T + np.array([-0.5, 2.0, 1.0])
    order = list(itertools.permutations(range(5)))[oi * 11 % 120]
    m = rdk.ethene_mol(order, None, None, subs=subs)
    m = rdk.with_conformer(m, xyz)
    Chem.SanitizeMol(m)
    mm = rdk.assign_from_3d(m)
    b = mm.GetBondBetweenAtoms(2, 3)
    if b.GetStereo() not in (Chem.BondStereo.STEREOZ, Chem.BondStereo.STEREOE):
        return f"harness error: RDKit assigned {b.GetStereo()} to the double bond"
    g_rd = C12._import(mm)
    g_3d = StereoMolGraph.from_geometry(Geometry(els, xyz))
    key = (2, 3)
    d_rd, d_3d = gl.snap(g_rd)["bstereo"].get(key), gl.snap(g_3d)["bstereo"].get(key)
    if d_rd is None or d_3d is None:
        return f"missing PlanarBond: annotation {d_rd}, coordinates {d_3d}"
    if not oracle.desc_equal(d_rd, d_3d):
        return f"double bond {subs} {'E' if ez else 'Z'}-placement: from annotation {d_rd} != from coordinates {d_3d}"
    # the perceived graph also carries conformational PlanarBonds on other bonds; compare after removing them (property text)
    for g in (g_rd, g_3d):
        for bb in list(g.bond_stereo):
            if set(bb) != {2, 3}:
                g.delete_bond_stereo(bb)
    if not (g_rd == g_3d):
        return "graphs (PlanarBonds on other bonds removed) compare unequal"
    return None


def plan(tier, seed):
    units = []
    for ki, kn in enumerate(KINDS):
        k = oracle.ARITY[kn] - 1
        nperm = len(list(itertools.permutations(range(k))))
        params = {"kind": (ki, ki + 1), "pl": (0, nperm), "oi": (0, nperm), "rot": (0, 24), "mirror": "bool", "noise": (0, 3 if tier == "quick" else 6)}
        pre = ["rot in (0, 5, 14, 23)", f"oi % {max(1, nperm // (6 if tier == 'quick' else 24))} == 0"]
        if kn == "TBP":
            pre.append("pl % 10 == 0" if tier == "quick" else "pl % 3 == 0")
        if kn == "Oct":
            pre.append("pl % 180 == 7" if tier == "quick" else "pl % 24 == 7")
        if tier == "quick":
            pre.append("noise == 0 or (rot == 0 and not mirror)")
        else:
            pre.append("noise < 2 or rot == 0")
        units.append(Sel(name=f"centre_{kn}", func="vp.props.C14:centre", params=params, pre=pre, shard_by=["mirror"], timeout=1500, nontrivial="pl > 0", min_shard=16))
    units.append(Sel(name="double_bond", func="vp.props.C14:dbond",
                     params={"sub_pl": (0, 24), "ez": (0, 2), "oi": (0, 6 if tier == "quick" else 12), "rot": (0, 24), "mirror": "bool", "noise": (0, 3)},
                     pre=["rot in (0, 5, 14, 23)", "noise == 0 or rot == 0", "sub_pl % 2 == 0 or oi == 0"], shard_by=["ez"], timeout=1500, min_shard=16))
    return units


MANIFEST = {
    "text": "Bounded model checking with the real RDKit: z3 enumerates centre class, placement of distinct ligands on the idealised vertices, bond insertion order, cube rotation, "
            "reflection and noise pattern; RDKit assigns CW/CCW, @SP/@TB/@OH labels or Z/E from the 3-D conformer; the descriptor imported from that annotation by the real table "
            "code must equal the descriptor perceived by the real coordinate code from the same coordinates (real ==, rotation-group oracle), and the graphs must compare equal.",
    "note": "Trusted: installed RDKit incl. AssignStereochemistryFrom3D (environment), CrossHair path exhaustion, z3. Partial claim: single centres / one double bond; embedded "
            "organic molecules are outside.",
    "technique": "CrossHair symbolic execution with z3 (solver-enumerated placements / orders / motions, real importer + perception + RDKit per path)",
}
