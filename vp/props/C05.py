"""C05 - isomorphism enumeration is exact (DESIGN.md §5 C05).

Solver-chosen graph A (small family / template); inner conjunction over B (A itself, renamed copies, every member of the
small family with the same atom count), label mode (default, caller-supplied 2-colour labels, colour-refinement labels) and
flags stereo / stereo_change.  The list yielded by the real vf2pp_all_isomorphisms must be duplicate-free and equal, as a set,
to the brute-force set of valid bijections under the same labels; for B = A it must be closed under composition and
inverse; topological_symmetry_number must equal the number of stereo-preserving automorphisms."""
from __future__ import annotations

import functools
import itertools

import numpy as np

from vp.lib import eqfam, fam, gl, iso, tmpl
from vp.props import C01, C02
from vp.runner import Sel

FILES = ["src/stereomolgraph/algorithms/isomorphism.py", "src/stereomolgraph/experimental.py", "src/stereomolgraph/algorithms/color_refine.py"]
FUNCTIONS = ["vf2pp_all_isomorphisms", "_sanity_check_and_init", "_matching_order", "_find_candidates", "_graph_feasibility",
             "_stereo_feasibility", "_stereo_change_feasibility", "_update_state", "_revert_state", "topological_symmetry_number"]
BOUNDS = {"quick": "A: small family over {0,1,2} per class and templates star4/lonepair/dbond/ring4/sn2 (highly symmetric ligand patterns included); "
                   "B: A, two renamed copies, every family member on the same atom set; 3 label modes; stereo on/off, stereo_change on/off; regular cages (cubic on 8 atoms, 4-regular on 8 and 9 atoms): complete enumeration between 400 seeded pairs of numberings of each cage, count = |Aut| by brute force",
          "thorough": "MG over {0,1,2,3}; templates star5, star6 (48 automorphisms), twocentre; 2400 pairs of numberings per cage"}
OUTSIDE = "subgraph=True mode (its stereo feasibility functions are stubs in the source); graphs beyond the bounds; pairs with unspecified parities when stereo=True"
ASSUMPTIONS = C02.ASSUMPTIONS + ['the raw enumerator is not required to look at bond reaction roles (they reach it only through caller-supplied labels); the oracle ignores roles and uses the same labels']


def _label_modes(ga, gb):
    from stereomolgraph.algorithms.color_refine import label_hash
    yield "default", None, None
    la = {a: (0 if i % 2 == 0 else 1) for i, a in enumerate(sorted(ga.atoms, key=repr))}
    # caller labels must be consistent between the graphs to be interesting: label by element parity
    la = {a: int(t) % 2 for a, t in zip(ga.atoms, ga.atom_types)}
    lb = {b: int(t) % 2 for b, t in zip(gb.atoms, gb.atom_types)}
    yield "caller", (la, lb), (la, lb)
    one_a = {a: 7 for a in ga.atoms}
    one_b = {b: 7 for b in gb.atoms}
    yield "uniform", (one_a, one_b), (one_a, one_b)
    # colour-refinement labels, as used by __eq__ (they encode the bond roles of reaction graphs)
    from stereomolgraph.algorithms import color_refine as cr
    fn = {"MolGraph": cr.color_refine_mg, "StereoMolGraph": cr.color_refine_smg, "CondensedReactionGraph": cr.color_refine_crg,
          "StereoCondensedReactionGraph": cr.color_refine_scrg}[type(ga).__name__]
    if len(ga.atoms) and len(gb.atoms):
        ca = {a: int(c) for a, c in zip(ga.atoms, fn(ga))}
        cb = {b: int(c) for b, c in zip(gb.atoms, fn(gb))}
        yield "refined", (ca, cb), (ca, cb)


def _enumerate(ga, gb, sa, sb, what, want_group):
    from stereomolgraph.algorithms.isomorphism import vf2pp_all_isomorphisms
    stereo_cls = "astereo" in sa
    chg_cls = "achg" in sa
    for lname, real_labels, orc_labels in _label_modes(ga, gb):
        for stereo in ((False, True) if stereo_cls else (False,)):
            for change in ((False, True) if (chg_cls and stereo) else (False,)):
                if stereo and not (iso.fully_specified(sa) and iso.fully_specified(sb)):
                    continue
                try:
                    got = list(vf2pp_all_isomorphisms(ga, gb, atom_labels=real_labels, stereo=stereo, stereo_change=change, subgraph=False))
                except Exception as e:
                    return f"{what} [{lname}, stereo={stereo}, change={change}]: enumeration raised {type(e).__name__}: {e}"
                if orc_labels is None:
                    exp = list(iso.all_isomorphisms(sa, sb, stereo=stereo, changes=change, roles=False))
                else:
                    exp = list(iso.all_isomorphisms(sa, sb, stereo=stereo, changes=change, labels=orc_labels, roles=False))
                keyf = lambda m: tuple(sorted(m.items(), key=repr))  # noqa: E731
                gk = [keyf(m) for m in got]
                if len(set(gk)) != len(gk):
                    return f"{what} [{lname}, stereo={stereo}, change={change}]: a mapping is yielded twice"
                ek = {keyf(m) for m in exp}
                if set(gk) != ek:
                    missing = [dict(k) for k in ek - set(gk)][:2]
                    extra = [dict(k) for k in set(gk) - ek][:2]
                    return (f"{what} [{lname}, stereo={stereo}, change={change}]: yielded {len(gk)} mappings, brute force finds {len(ek)}; "
                            f"missing {missing} invalid {extra}")
                for m in got:
                    if set(m.keys()) != set(sa["atoms"]) or set(m.values()) != set(sb["atoms"]):
                        return f"{what}: yielded mapping {m} is not a bijection of the atom sets"
                if want_group and got:
                    ks = set(gk)
                    for m1 in got[:24]:
                        inv = {v: k for k, v in m1.items()}
                        if keyf(inv) not in ks:
                            return f"{what}: automorphisms not closed under inverse"
                        for m2 in got[:24]:
                            comp = {a: m2[m1[a]] for a in m1}
                            if keyf(comp) not in ks:
                                return f"{what}: automorphisms not closed under composition"
    return None


def _symmetry_number(g, s):
    from stereomolgraph.experimental import topological_symmetry_number
    if not isinstance(g, gl.StereoMolGraph) or not iso.fully_specified(s) or len(s["atoms"]) == 0:
        return None
    try:
        n = topological_symmetry_number(g)
    except Exception as e:
        return f"topological_symmetry_number raised {type(e).__name__}: {e}"
    # stereo-preserving automorphisms respecting colour-refinement classes = all stereo-preserving automorphisms
    exp = sum(1 for _ in iso.all_isomorphisms(s, s, stereo=True, changes=False))
    if n != exp:
        return f"topological_symmetry_number = {n}, brute force counts {exp} stereo-preserving automorphisms"
    return None


def _body(spec, family=None):
    ga = gl.build(spec)
    sa = gl.snap(ga)
    msg = _enumerate(ga, ga, sa, sa, "A vs A", True)
    if msg:
        return msg
    msg = _enumerate(ga, ga.copy(), sa, sa, "A vs copy", True)
    if msg:
        return msg
    atoms = tmpl.atoms_of(spec)
    if atoms:
        for m in tmpl.renamings(atoms, 0, cap=4)[-3:]:
            gb = ga.relabel_atoms(dict(m), copy=True)
            msg = _enumerate(ga, gb, sa, gl.snap(gb), f"A vs relabelled {m}", False)
            if msg:
                return msg
    if spec["cls"] in ("SMG",):
        msg = _symmetry_number(ga, sa)
        if msg:
            return msg
    if family is not None:
        present = set(sa["atoms"])
        for (sb_spec, sb, gb) in family:
            if set(sb["atoms"]) != present:
                continue
            msg = _enumerate(ga, gb, sa, sb, f"A vs B={C02._short(sb_spec)}", False)
            if msg:
                return msg
    return None


def small3(cls, **sel):
    cname = gl.CLS_NAMES[cls]
    return _body(fam.decode(cname, 3, sel), C02._family(cname, 3, "quick"))


def small4(cls, **sel):
    cname = gl.CLS_NAMES[cls]
    return _body(fam.decode(cname, 4, sel), C02._family(cname, 4, "thorough"))


def template(t, cls, **sel):
    spec = eqfam.template_spec(C01.TNAMES[t], gl.CLS_NAMES[cls], sel)
    if not eqfam.fully_specified_spec(spec):
        return None
    msg = _body(spec)
    if msg:
        return msg
    # against the mirror image and single-feature mutations
    ga = gl.build(spec)
    sa = gl.snap(ga)
    n = 0
    for what, m in tmpl.mutations(spec):
        if not eqfam.fully_specified_spec(m):
            continue
        try:
            gm = gl.build(m)
        except Exception:
            continue
        msg = _enumerate(ga, gm, sa, gl.snap(gm), f"A vs mutation [{what}]", False)
        if msg:
            return msg
        n += 1
        if n > 12:
            break
    return None


def hard(i, j, ri, cls):
    """automorphism groups of cages / symmetric skeletons and enumerations between WL-equivalent skeletons"""
    cname = gl.CLS_NAMES[cls]
    sa_spec, sb_spec = tmpl.skeleton(cname, i, 0), tmpl.skeleton(cname, j, ri)
    ga, gb = gl.build(sa_spec), gl.build(sb_spec)
    msg = _enumerate(ga, gb, gl.snap(ga), gl.snap(gb), f"{tmpl.SKELETON_NAMES[i]} vs {tmpl.SKELETON_NAMES[j]}(renumbering {ri})", i == j and ri == 0)
    if msg:
        return msg
    if cname == "SMG" and i == j:
        return _symmetry_number(ga, gl.snap(ga))
    return None


_AUT = {}


def cages(f, i, blk, cls):
    """complete enumeration between numberings of the same k-regular cage (every cubic graph on 8 atoms, every 4-regular graph on 8 and 9 atoms), C02.CAGE_BLOCK seeded
    numberings per call: every yielded mapping must be a bond-preserving bijection, none twice, and their number must be |Aut| (brute force)"""
    cname = gl.CLS_NAMES[cls]
    from stereomolgraph.algorithms.isomorphism import vf2pp_all_isomorphisms
    n, deg = C02.CAGE_FAMS[f]
    key = (n, deg, i)
    if key not in _AUT:
        s0 = gl.snap(gl.build(tmpl.regular_spec("MG", n, deg, i, 0)))
        _AUT[key] = sum(1 for _ in iso.all_isomorphisms(s0, s0))
    for r in range(blk * C02.CAGE_BLOCK, (blk + 1) * C02.CAGE_BLOCK):
        ga, gb = gl.build(tmpl.regular_spec(cname, n, deg, i, r)), gl.build(tmpl.regular_spec(cname, n, deg, i, 7 * r + 3))
        what = f"{deg}-regular {n}-atom cage #{i}: numbering {r} vs numbering {7 * r + 3}"
        try:
            got = list(vf2pp_all_isomorphisms(ga, gb))
        except Exception as e:
            return f"{what}: enumeration raised {type(e).__name__}: {e}"
        ba, bb = {frozenset(b) for b in ga.bonds}, {frozenset(b) for b in gb.bonds}
        seen = set()
        for m in got:
            k = tuple(sorted(m.items()))
            if k in seen:
                return f"{what}: mapping {m} is yielded twice"
            seen.add(k)
            if set(m) != set(ga.atoms) or set(m.values()) != set(gb.atoms) or len(set(m.values())) != len(m):
                return f"{what}: yielded mapping {m} is not a bijection of the atom sets"
            bad = [tuple(b) for b in ba if frozenset(m[x] for x in b) not in bb]
            if bad:
                return f"{what}: yielded mapping {m} sends bonds {bad[:3]} onto non-bonded pairs; bonds A {sorted(tuple(sorted(b)) for b in ba)}"
        if len(got) != _AUT[key]:
            return f"{what}: {len(got)} mappings yielded, brute force finds {_AUT[key]} (all yielded ones are valid, so some are missing)"
        if cname == "SMG" and r == blk * C02.CAGE_BLOCK:
            msg = _symmetry_number(ga, gl.snap(ga))
            if msg:
                return msg
    return None


def plan(tier, seed):
    units = []
    nsk = len(tmpl.SKELETON_NAMES)
    for (n, k) in C02.CAGE_FAMS:
        tmpl.regular_graphs(n, k)
    units.append(Sel(name="regular_cages", func="vp.props.C05:cages",
                     params={"f": (0, 3), "i": (0, 16), "blk": (0, 10 if tier == "quick" else 60), "cls": (0, 2)},
                     pre=["f == 2 or i < 6", "cls == 0 or blk < 2"], shard_by=[], timeout=1500, nontrivial="blk > 0"))
    units.append(Sel(name="hard_skeletons", func="vp.props.C05:hard",
                     params={"i": (0, nsk), "j": (0, nsk), "ri": (0, 3 if tier == "quick" else 8), "cls": (0, 2)},
                     pre=["i == j or (i, j) in ((1, 2), (2, 1), (3, 4), (4, 3), (7, 8), (8, 7), (7, 9), (9, 8))"], shard_by=[], timeout=1500, nontrivial="ri > 0"))
    for cname in gl.CLS_NAMES:
        k = 4 if (tier == "thorough" and cname == "MG") else 3
        u = C02._small_unit(cname, k, "quick" if k == 3 else "thorough", f"vp.props.C05:small{k}")
        u.name = f"enum_{cname}"
        units.append(u)
    names = ["star4", "lonepair", "dbond", "ring4", "sn2", "annulene"] + (["twocentre", "star5", "star6"] if tier == "thorough" else [])
    for (n, c, p, pr) in eqfam.template_units(names):
        params = {"t": (C01.TNAMES.index(n), C01.TNAMES.index(n) + 1), "cls": (gl.CLS_NAMES.index(c), gl.CLS_NAMES.index(c) + 1)}
        params.update(p)
        pre = list(pr) + ["par < 2"] + (["par2 < 2"] if "par2" in p else [])
        if tier == "quick":
            pre += {"star4": ["order % 8 == 0", "chg in (0, 2)"], "lonepair": ["lig in (0, 1, 3)", "order % 8 == 0", "chg in (0, 1)"],
                    "dbond": ["sub in (0, 1, 3, 4)", "order % 16 == 0", "chg in (0, 3)"], "ring4": ["chg in (0, 2)"]}.get(n, [])
        else:
            pre += {"star4": ["order % 4 == 0"], "lonepair": ["order % 4 == 0"], "dbond": ["order % 8 == 0"],
                    "star5": ["order % 30 == 0", "chg in (0, 2)"], "star6": ["order % 240 == 0", "chg in (0, 2)"]}.get(n, [])
        if n == "star6" and c == "SCRG":
            pre += ["chg == 0", "lig in (0, 1, 3)"]      # one octahedral SCRG instance costs about a CPU-minute (720-element groups x label modes)
        units.append(Sel(name=f"{n}_{c}", func="vp.props.C05:template", params=params, pre=pre, shard_by=[], timeout=1500, nontrivial="par == 0",
                         min_shard=4 if n in ("star5", "star6", "twocentre", "annulene") else 48))
    return units


MANIFEST = {
    "text": "Bounded model checking: z3 enumerates graph A (all small graphs per class; template instances incl. highly symmetric ligand patterns with up to "
            "48 automorphisms); the real enumerator is run on (A,A), (A,copy), (A,renamed A), (A, every family member on the same atoms), (A, mutations) for "
            "three label modes and all stereo / stereo_change flag combinations; the yielded list must be duplicate-free and equal to the set of bijections "
            "found by an independent brute-force search; automorphism lists must be closed under composition and inverse; the topological symmetry number "
            "must equal the brute-force count.",
    "note": "Trusted: CrossHair path exhaustion, z3, brute-force oracle. subgraph=True is outside (stubs in the source).",
    "technique": "CrossHair symbolic execution with z3 (solver-enumerated bounded graphs, real enumerator per path) against brute-force bijection enumeration",
}
