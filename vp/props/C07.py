"""C07 - perception from coordinates depends only on the 3D shape (DESIGN.md §5 C07).

Layer 1 (engine B, all real coordinates): z3 proves on the real handedness / planar-bond orientation / are_planar kernels the
behaviour under translation, axis rotations, reflection and permutation of the points (vp/shadow/geomlemmas.py:run_c07).
Layer 2 (engine A-sym, identifiers unbounded): the real _*_from_coords functions run under CrossHair with symbolic atom ids on
concrete template coordinates: the descriptor names exactly the given ids (centre first) and is unchanged, as an arrangement,
when the neighbours are listed in another order; the mirrored template gives the inverted descriptor.
Layer 3 (engine A-sel, whole graphs): StereoMolGraph.from_geometry / StereoCondensedReactionGraph.from_geometries on template
molecules under solver-chosen atom reordering, cube rotation, translation, reflection and noise pattern."""
from __future__ import annotations

import itertools

import numpy as np

from vp.lib import geom, gl, iso, oracle, tmpl
from vp.runner import Nat, Sel, Sym

FILES = ["src/stereomolgraph/xyz2graph.py", "src/stereomolgraph/coords.py", "src/stereomolgraph/graphs/smg.py", "src/stereomolgraph/graphs/scrg.py",
         "src/stereomolgraph/graphs/mg.py"]
FUNCTIONS = ["handedness", "are_planar", "angle_from_coords", "_tetrahedral_from_coords", "_square_planar_from_coords", "_trigonal_bipyramidal_from_coords",
             "_octahedral_from_coords", "_planar_bond_from_coords", "atom_stereo_from_coords", "stero_from_geometry", "connectivity_from_geometry",
             "StereoMolGraph.from_geometry", "StereoCondensedReactionGraph.from_geometries"]
BOUNDS = {"quick": "kernels: all real coordinates (4 / 6 points); perception functions: ids unbounded, template coordinates, all neighbour orders for Tet/SP, strided for "
                   "TBP/Oct; graphs: 5 templates (CHFClBr, PtHFClBr, PHFClBrI, S-HFClBrIO, HFC=CClBr) x atom reorderings (all for <= 5 atoms, else 24 seeded) x 24 cube "
                   "rotations x 3 translations x reflection x 4 noise patterns (eps 0.03 A); one reaction triple moved independently; second reaction template H3N + CH3Cl (9 atoms, TS carbon with three H at 1.07 A) in 24 seeded atom orders; zig-zag chains of 33..257 atoms rotated / translated / re-ordered",
          "thorough": "(both tiers, since round 3 of the seeded changes: every moved / re-ordered template geometry is also translated by (5e7, -3e7, 4e7) A, and a user cut-off override for the first hetero-element bond is checked in every atom order) all neighbour orders for TBP, 144 for Oct; 12 noise patterns; 60 atom orders of the methyl template; 8 orders of each chain"}
OUTSIDE = ("continuous noise and arbitrary rotation angles end-to-end (non-linear real robustness queries are not decided by z3/cvc5 within minutes); rotation invariance of the "
           "are_planar decision (nlsat undecided); geometries within the band where are_planar depends on the order of the four points")
ASSUMPTIONS = ["floating point evaluation agrees in sign with exact arithmetic away from decision boundaries (the property's 'general position')",
               "template bond lengths 1.05 x (sum of covalent radii); ligand-ligand contacts are checked to be non-bonded at run time"]

KINDS = ["Tet", "SP", "TBP", "Oct"]


def template_geometry(kind, placement=None):
    """elements, coords with per-ligand bond length; ligand j (atom j+1) on vertex placement[j]"""
    from stereomolgraph.periodic_table import COVALENT_RADII, PERIODIC_TABLE
    cel, ligs, _, _ = geom.TEMPLATES[kind]
    k = len(ligs)
    placement = placement or tuple(range(1, k + 1))
    fig = oracle.FIGURES[kind]
    xyz = np.zeros((k + 1, 3))
    for j in range(k):
        v = np.array(fig[placement[j]], dtype=float)
        L = 1.05 * (COVALENT_RADII[PERIODIC_TABLE[cel]] + COVALENT_RADII[PERIODIC_TABLE[ligs[j]]])
        xyz[j + 1] = v / np.linalg.norm(v) * L
    return [cel] + list(ligs), xyz


FUNCS = {"Tet": "_tetrahedral_from_coords", "SP": "_square_planar_from_coords", "TBP": "_trigonal_bipyramidal_from_coords",
         "Oct": "_octahedral_from_coords"}


def _sym_source(kind, perms, tag):
    k = oracle.ARITY[kind] - 1
    els, xyz = template_geometry(kind)
    args = ", ".join(f"a{i}: int" for i in range(k + 1))
    src = f'''import sys
sys.path[:0] = ["/verif", "/repo/src"]
import numpy as np
from stereomolgraph import xyz2graph as X

XYZ = np.array({xyz.tolist()!r})
MIRROR = XYZ * np.array([1.0, 1.0, -1.0])
PERMS = {[list(p) for p in perms]!r}


def _distinct(*xs):
    for i in range(len(xs)):
        for j in range(i + 1, len(xs)):
            if xs[i] == xs[j]:
                return False
    return True


def c_perception_{kind}_{tag}({args}, k: int) -> bool:
    """
    pre: _distinct({", ".join(f"a{i}" for i in range(k + 1))})
    pre: 0 <= k < {len(perms)}
    post: _
    """
    ids = ({", ".join(f"a{i}" for i in range(k + 1))},)
    ref = X.{FUNCS[kind]}(ids, XYZ)
    p = [0] + PERMS[k]
    ids2 = tuple([ids[i] for i in p])
    other = X.{FUNCS[kind]}(ids2, XYZ[p])
    mir = X.{FUNCS[kind]}(ids, MIRROR)
    ok = ref is not None and other is not None and mir is not None
    ok = ok and ref.atoms[0] == a0 and len(ref.atoms) == {k + 1}
    # exactly the given identifiers, each once
    for x in ids:
        ok = ok and (sum(1 for y in ref.atoms if y == x) == 1)
    ok = ok and (ref == other) and (other == ref)
    ok = ok and (mir == ref.invert()) and {"(mir != ref)" if oracle.CHIRAL[kind] else "(mir == ref)"}
    return ok


def t_perception_{kind}_{tag}({args}) -> bool:
    """
    pre: _distinct({", ".join(f"a{i}" for i in range(k + 1))})
    post: False
    """
    ids = ({", ".join(f"a{i}" for i in range(k + 1))},)
    return X.{FUNCS[kind]}(ids, XYZ) is not None
'''
    return src, [f"t_perception_{kind}_{tag}"]


def sym_replay(fn, msg):
    import re
    m = re.search(r"calling (\w+)\((.*?)\)(?: \(which returns|$)", msg)
    if not m:
        return None
    for u in plan("thorough", 0):
        if isinstance(u, Sym) and re.search(rf"^def {re.escape(fn)}\(", u.source, re.M):
            ns = {}
            exec(compile(u.source, u.name, "exec"), ns)
            try:
                res = eval(f"f({m.group(2)})", {"f": ns[fn]})
            except Exception as e:
                return f"{fn}({m.group(2)}) raised {type(e).__name__}: {e}"
            if res is False:
                return f"{fn}({m.group(2)}) is False: perceived descriptor does not name the given identifiers / depends on the neighbour order / mirror image not inverted"
            return None
    return None


# ------------------------------------------------------------------------------------------------
# layer 3: whole graphs
# ------------------------------------------------------------------------------------------------
MOLS = ["Tet", "SP", "TBP", "Oct", "ethene"]


def _molecule(m):
    if m < 4:
        return template_geometry(KINDS[m])
    els, xyz = geom.ethene()
    return els, xyz


def _perm_of(n, idx, seed=0):
    if n <= 5:
        return list(list(itertools.permutations(range(n)))[idx % 120 if n == 5 else idx % 24 if n == 4 else idx % 6])
    import random
    rng = random.Random(idx * 7919 + seed)
    p = list(range(n))
    if idx:
        rng.shuffle(p)
    return p


def graph_body(m, perm, rot, tr, mirror, noise, nnoise=4):
    from stereomolgraph.coords import Geometry
    from stereomolgraph.graphs.smg import StereoMolGraph
    els, xyz = _molecule(m)
    n = len(els)
    ref = StereoMolGraph.from_geometry(Geometry(els, xyz))
    sref = gl.snap(ref)
    if not ref.is_stereo_valid():
        return "reference perception is not stereo-valid"
    if len(sref["astereo"]) + len(sref["bstereo"]) == 0:
        return "harness error: template perceived without any descriptor"
    p = _perm_of(n, perm)
    pats = geom.noise_patterns(n, 0.03, nnoise, seed=11)
    M = geom.CUBE[rot] @ (geom.MIRROR if mirror else np.eye(3))
    xyz2 = (xyz + pats[noise]) @ M.T + geom.TRANSLATIONS[tr]
    # new atom a is old atom p[a]
    geo2 = Geometry([els[i] for i in p], xyz2[p])
    try:
        g2 = StereoMolGraph.from_geometry(geo2)
    except Exception as e:
        return f"from_geometry raised {type(e).__name__}: {e}"
    if not g2.is_stereo_valid():
        return f"perceived graph is not stereo-valid: {gl.snap(g2).get('astereo')}"
    inv = {old: new for new, old in enumerate(p)}
    expected = ref.relabel_atoms(inv, copy=True)
    sexp = gl.snap(expected)
    if mirror:
        sexp = iso.mirror_snap(sexp)
    s2 = gl.snap(g2)
    if s2["atoms"] != sexp["atoms"] or s2["bonds"] != sexp["bonds"]:
        return f"connectivity differs after rigid motion / reordering: {s2['bonds']} vs {sexp['bonds']}"
    for key in ("astereo", "bstereo"):
        if set(s2[key]) != set(sexp[key]):
            return f"{key} perceived on {sorted(s2[key], key=repr)} but reference (renamed) has {sorted(sexp[key], key=repr)}"
        for k_, d in sexp[key].items():
            if s2[key][k_][0] != d[0] or not oracle.desc_equal(s2[key][k_], d):
                return f"{key}[{k_}] = {s2[key][k_]} but the {'mirrored ' if mirror else ''}reference (renamed) is {d}"
    if mirror:
        if not (g2 == expected.enantiomer()):
            return "reflected coordinates do not give the enantiomer (==)"
    elif not (g2 == expected and expected == g2):
        return "graph from moved / reordered coordinates != renamed reference"
    # (round 3) translation far from the origin: float64 still resolves 1e-8 A at 5e7 A, the perceived graph must not change
    try:
        g3 = StereoMolGraph.from_geometry(Geometry([els[i] for i in p], xyz2[p] + FAR))
    except Exception as e:
        return f"from_geometry raised {type(e).__name__} after a translation by {FAR.tolist()}: {e}"
    s3 = gl.snap(g3)
    if s3["bonds"] != s2["bonds"] or set(s3["astereo"]) != set(s2["astereo"]) or set(s3["bstereo"]) != set(s2["bstereo"]):
        return f"translation by {FAR.tolist()} changes the perceived graph: bonds {sorted(s3['bonds'])} vs {sorted(s2['bonds'])}, centres {sorted(s3['astereo'])} vs {sorted(s2['astereo'])}"
    for key in ("astereo", "bstereo"):
        for k_, d in s2[key].items():
            if s3[key][k_][0] != d[0] or not oracle.desc_equal(s3[key][k_], d):
                return f"translation by {FAR.tolist()} changes {key}[{k_}]: {s3[key][k_]} vs {d}"
    if not (g3 == g2):
        return f"translation by {FAR.tolist()} gives an unequal graph"
    # (round 3) a user-supplied cut-off for one element pair (given in one orientation, as documented for the dict) must act on that pair in every atom order
    msg = _override_check(els, xyz, p, xyz2)
    if msg:
        return msg
    return None


FAR = np.array([5.0e7, -3.0e7, 4.0e7])


def _override_check(els, xyz, p, xyz2):
    from stereomolgraph.coords import BondsFromDistance, Geometry
    from stereomolgraph.graphs.mg import MolGraph
    geo = Geometry(els, xyz)
    plain = MolGraph.from_geometry(geo)
    cand = sorted(tuple(sorted(b)) for b in plain.bonds if els[min(b)] != els[max(b)])
    if not cand:
        return None
    a, b = cand[0]
    ta, tb = geo.atom_types[a], geo.atom_types[b]
    d = float(np.linalg.norm(xyz[a] - xyz[b]))

    def sw():
        f = BondsFromDistance()
        f.connectivity_cutoff[(ta, tb)] = 0.5 * d
        return f
    ref = MolGraph.from_geometry(geo, switching_function=sw())
    if ref.has_bond(a, b):
        return f"cut-off override {(els[a], els[b])} -> {0.5 * d:.3f} ignored in the reference order: bond {a}-{b} (length {d:.3f}) still present"
    inv = {old: new for new, old in enumerate(p)}
    g = MolGraph.from_geometry(Geometry([els[i] for i in p], xyz2[p]), switching_function=sw())
    exp = {frozenset((inv[x], inv[y])) for x, y in map(tuple, ref.bonds)}
    got = {frozenset(bb) for bb in g.bonds}
    if got != exp:
        return (f"with the cut-off override {(els[a], els[b])} -> {0.5 * d:.3f} the connectivity depends on the atom order {list(p)}: "
                f"extra {sorted(map(sorted, got - exp))}, missing {sorted(map(sorted, exp - got))}")
    return None


def reaction_body(rot_r, rot_p, rot_t, tr, perm):
    """SN2-like triple: R = Br...CHFCl-I?  kept simple: CHFClBr + incoming I; reactant/product/TS moved independently"""
    from stereomolgraph.coords import Geometry
    from stereomolgraph.graphs.scrg import StereoCondensedReactionGraph as S
    els = ["C", "H", "F", "Cl", "Br", "I"]
    base = np.array([[0, 0, 0], [0.63, 0.63, 0.63], [0.8, -0.8, -0.8], [-1.05, 1.05, -1.05], [-1.15, -1.15, 1.15], [3.5, 3.5, -3.5]], float)
    # reactant: C-Br bonded (atom 4), I far;   product: I bonded on the opposite side, Br far;   TS: both at intermediate distance
    r = base.copy()
    pr = base.copy()
    pr[4] = base[4] * 3.0
    pr[5] = -base[4] / np.linalg.norm(base[4]) * 2.2
    pr[1:4] = base[1:4] * np.array([1, 1, 1]) + 2 * 0.25 * base[4] / np.linalg.norm(base[4])
    ts = base.copy()
    ts[4] = base[4] * 1.25
    ts[5] = -base[4] / np.linalg.norm(base[4]) * 2.6
    ts[1:4] = base[1:4] + 0.25 * base[4] / np.linalg.norm(base[4])
    ref = S.from_geometries(Geometry(els, r), Geometry(els, pr), Geometry(els, ts))
    p = _perm_of(6, perm)
    def move(x, rot):
        return (x @ geom.CUBE[rot].T + geom.TRANSLATIONS[tr])[p]
    e2 = [els[i] for i in p]
    try:
        g2 = S.from_geometries(Geometry(e2, move(r, rot_r)), Geometry(e2, move(pr, rot_p)), Geometry(e2, move(ts, rot_t)))
    except Exception as e:
        return f"from_geometries raised {type(e).__name__}: {e}"
    inv = {old: new for new, old in enumerate(p)}
    expected = ref.relabel_atoms(inv, copy=True)
    if not (g2 == expected and expected == g2):
        return f"reaction graph from independently moved geometries != renamed reference: {gl.snap(g2)} vs {gl.snap(expected)}"
    if len(gl.snap(ref)["bonds"]) < 4:
        return "harness error: reaction template has too few bonds"
    return None


def _methyl_transfer():
    """H3N + CH3-Cl -> H3N-CH3 + Cl: the TS carbon has five neighbours, three of them hydrogens at 1.07 A in one plane"""
    import math
    els = ["C", "H", "H", "H", "Cl", "N", "H", "H", "H"]
    def ring(radius, z, phase=0.0):
        return [[radius * math.cos(phase + 2 * math.pi * k / 3), radius * math.sin(phase + 2 * math.pi * k / 3), z] for k in range(3)]
    def nh3(zn):
        return [[0, 0, zn]] + [[x, y, zn + 0.35] for x, y, _ in ring(0.95, 0, 0.5)]
    r = np.array([[0, 0, 0]] + ring(1.03, 0.36) + [[0, 0, -1.78]] + nh3(3.3), float)
    ts = np.array([[0, 0, 0]] + ring(1.07, 0.0) + [[0, 0, -2.35]] + nh3(2.0), float)
    pr = np.array([[0, 0, 0]] + ring(1.03, -0.36) + [[0, 0, -3.4]] + nh3(1.48), float)
    return els, r, pr, ts


def methyl_body(rot_r, rot_t, tr, perm):
    """second reaction template (nine atoms), reactant / product / TS moved independently, atoms listed in seeded orders"""
    from stereomolgraph.coords import Geometry
    from stereomolgraph.graphs.scrg import StereoCondensedReactionGraph as S
    els, r, pr, ts = _methyl_transfer()
    ref = S.from_geometries(Geometry(els, r), Geometry(els, pr), Geometry(els, ts))
    sref = gl.snap(ref)
    if sum(1 for b in sref["bonds"] if 0 in b) != 5 or not sref["achg"].get(0):
        return f"harness error: the TS carbon of the methyl-transfer template is not five-coordinate with a stereo change: {sref['bonds'].keys()} {sref['achg']}"
    p = _perm_of(9, perm, seed=5)
    def move(x, rot):
        return (x @ geom.CUBE[rot].T + geom.TRANSLATIONS[tr])[p]
    e2 = [els[i] for i in p]
    try:
        g2 = S.from_geometries(Geometry(e2, move(r, rot_r)), Geometry(e2, move(pr, (rot_r * 5 + 1) % 24)), Geometry(e2, move(ts, rot_t)))
    except Exception as e:
        return f"from_geometries raised {type(e).__name__}: {e}"
    inv = {old: new for new, old in enumerate(p)}
    expected = ref.relabel_atoms(inv, copy=True)
    if not (g2 == expected and expected == g2):
        return (f"methyl transfer: reaction graph from moved geometries with atom order {list(p)} != renamed reference: "
                f"{gl.snap(g2)['achg']} vs {gl.snap(expected)['achg']}; bonds {sorted(map(sorted, gl.snap(g2)['bonds']))} vs {sorted(map(sorted, gl.snap(expected)['bonds']))}")
    return None


CHAIN_SIZES = [33, 127, 129, 131, 200, 257]


def chain_body(ni, rot, tr, order):
    """larger systems: zig-zag chain C/C/S/N of CHAIN_SIZES[ni] atoms, rotated, translated and listed in a seeded order: the graph is the reference renamed"""
    import random
    from stereomolgraph.coords import Geometry
    from stereomolgraph.graphs.mg import MolGraph
    n = CHAIN_SIZES[ni]
    els = [(6, 6, 16, 7)[i % 4] for i in range(n)]
    pos = np.array([[1.26 * i, 0.8 * (i % 2), 0.05 * (i % 3)] for i in range(n)], float)
    ref = MolGraph.from_geometry(Geometry(els, pos))
    if len(ref.bonds) != n - 1:
        return f"chain of {n} atoms (consecutive atoms 1.5 A apart, all other pairs beyond 2.5 A) gets {len(ref.bonds)} bonds instead of {n - 1}"
    p = list(range(n))
    if order:
        random.Random(order * 977 + n).shuffle(p)
    moved = (pos @ geom.CUBE[rot].T + geom.TRANSLATIONS[tr])[p]
    g = MolGraph.from_geometry(Geometry([els[i] for i in p], moved))
    inv = {old: new for new, old in enumerate(p)}
    exp_bonds = {frozenset((inv[a], inv[b])) for a, b in map(tuple, ref.bonds)}
    if set(g.bonds) != exp_bonds or [g.get_atom_type(a) for a in g.atoms] != [ref.get_atom_type(p[a]) for a in g.atoms]:
        return (f"chain of {n} atoms, rotation {rot}, translation {tr}, atom order seed {order}: {len(set(g.bonds) ^ exp_bonds)} bonds differ from the "
                f"renamed reference, e.g. {sorted(map(sorted, set(g.bonds) ^ exp_bonds))[:3]}")
    return None


def plan(tier, seed):
    units = [Nat(name="kernels_all_reals", func="vp.shadow.geomlemmas:run_c07", timeout=1500)]
    for kind in KINDS:
        k = oracle.ARITY[kind] - 1
        perms = [list(p) for p in itertools.permutations(range(1, k + 1))]
        if kind == "TBP" and tier == "quick":
            perms = perms[::5]
        if kind == "Oct":
            perms = perms[:: (30 if tier == "quick" else 5)]
        chunk = 24
        for c0 in range(0, len(perms), chunk):
            src, twins = _sym_source(kind, perms[c0:c0 + chunk], f"c{c0}")
            units.append(Sym(name=f"perception_{kind}_{c0}", source=src, twins=twins, timeout=1500, replay="vp.props.C07:sym_replay"))
    nn = 4 if tier == "quick" else 12
    params = {"m": (0, 5), "perm": (0, 24), "rot": (0, 24), "tr": (0, 3), "mirror": "bool", "noise": (0, nn)}
    pre = ["perm < 24"]
    if tier == "quick":
        pre += ["rot % 3 == 0 or (perm == 0 and noise == 0)", "perm % 4 == 0 or (rot == 0 and tr == 0)", "noise == 0 or (tr == 0 and rot in (0, 7) and perm in (0, 5))"]
    else:
        pre += ["rot % 3 == 0 or (perm % 6 == 0 and rot % 2 == 0)", "noise < 4 or (tr == 0 and rot % 6 == 1)", "tr < 2 or perm % 2 == 0"]
    units.append(Sel(name="from_geometry", func="vp.props.C07:graph_body" if tier == "quick" else "vp.props.C07:graph_body_t", params=params, pre=pre,
                     shard_by=["m"], timeout=1500, nontrivial="rot > 0 or perm > 0"))
    rp = {"rot_r": (0, 24), "rot_p": (0, 24), "rot_t": (0, 24), "tr": (0, 3), "perm": (0, 6)}
    rpre = ["rot_r % 6 == 0 and rot_p % 5 == 0 and rot_t % 7 == 0"] if tier == "quick" else ["rot_r % 3 == 0 and rot_p % 4 == 0 and rot_t % 4 == 1"]
    units.append(Sel(name="from_geometries", func="vp.props.C07:reaction_body", params=rp, pre=rpre, shard_by=[], timeout=1500))
    units.append(Sel(name="from_geometry_chains", func="vp.props.C07:chain_body",
                     params={"ni": (0, len(CHAIN_SIZES)), "rot": (0, 24), "tr": (0, 3), "order": (0, 3 if tier == "quick" else 8)},
                     pre=["rot % 6 == 1"] if tier == "quick" else ["rot % 2 == 1"], shard_by=[], timeout=1500, nontrivial="order > 0"))
    units.append(Sel(name="from_geometries_methyl", func="vp.props.C07:methyl_body",
                     params={"rot_r": (0, 24), "rot_t": (0, 24), "tr": (0, 3), "perm": (0, 24 if tier == "quick" else 60)},
                     pre=["rot_r % 8 == 0 and rot_t % 6 == 1 and tr < 2"] if tier == "quick" else ["rot_r % 6 == 0 and rot_t % 4 == 1"], shard_by=[], timeout=1500,
                     nontrivial="perm > 0"))
    return units


def graph_body_t(**kw):
    return graph_body(nnoise=12, **kw)


MANIFEST = {
    "text": "Three layers: (1) z3 proves on the real NumPy kernels (handedness, planar-bond orientation, planarity measure, pairwise distances), executed on symbolic real "
            "coordinates, antisymmetry / invariance under permutation of the points, translation, axis rotations (numerator identities with c^2+s^2=1) and reflection - "
            "for all real coordinates; (2) CrossHair executes the real per-class perception functions with unbounded symbolic atom identifiers on template coordinates: the "
            "descriptor names exactly the given identifiers, is independent of the order in which neighbours are listed, and the mirrored template gives the inverted "
            "descriptor; (3) bounded model checking of from_geometry / from_geometries on template molecules under solver-enumerated atom reorderings, cube rotations, "
            "translations, reflection and noise patterns against the renamed (mirrored) reference graph.",
    "note": "Trusted: z3 nlsat, the shadow real-number wrapper (validated against float runs), CrossHair, rotation-group oracle. Continuous noise / arbitrary angles end-to-end "
            "and rotation invariance of the are_planar decision are outside (solver gives no answer within minutes).",
    "technique": "z3 proofs over shadow-executed NumPy kernels (all reals) + CrossHair symbolic execution with unbounded ids + CrossHair/z3 bounded model checking on templates",
}
