"""C04 - stereodescriptor identity is spatial identity (DESIGN.md §5 C04).

Engine A-sym: the real `__eq__`, `invert`, `_perm_atoms`, `_inverted_atoms` run under CrossHair with
ligand identifiers as *unbounded* symbolic integers (pairwise distinct), optionally with up to two
`None` placeholders; the permutation index and the parities are symbolic selectors.  The oracle is the
rotation group computed from idealised coordinates (vp/lib/oracle.py).  Hash obligations use a finite
identifier universe (native hashing realises ints) in engine A-sel."""
from __future__ import annotations

import itertools

from vp.lib import gl, oracle
from vp.runner import Nat, Sel, Sym

FILES = ["src/stereomolgraph/stereodescriptors.py"]
FUNCTIONS = ["_StereoMixin.__eq__", "_StereoMixin.__hash__", "_StereoMixin.invert", "_StereoMixin._perm_atoms",
             "_StereoMixin._inverted_atoms", "PERMUTATION_GROUP/inversion tables of the six classes"]
BOUNDS = {"quick": "identifier values unbounded (symbolic ints, pairwise distinct); all orderings of all six classes (24/24/120/720/48/48), "
                   "all parity pairs; placeholder patterns: none, one None (each ligand position class), two None (first pattern); "
                   "hash: ids from {-7,0,1,2,5,2^40,..}, identifier 0 on every position relative to the placeholders; invert() on a descriptor that has been compared / hashed before; hash: identifier 0 on every position relative to the placeholders (equal-parity pairs)",
          "thorough": "as quick plus every one- and two-placeholder pattern for every class"}
OUTSIDE = "more than two placeholders; parities outside the class' declared domain (e.g. Tetrahedral with parity 0)"
ASSUMPTIONS = ["idealised figures of vp/lib/oracle.py encode the position semantics stated in the class docstrings and used by xyz2graph.py",
               "hash obligations use a finite identifier universe because native hash() realises symbolic integers"]

KINDS = ["Tet", "SP", "TBP", "Oct", "PB", "Atrop"]
CLSNAME = {k: v.__name__ for k, v in gl.DESC.items()}
IDS = [-7, 0, 1, 2, 5, 1 << 40, 11, 3]


SIBLINGS = {"Tet": ["SP"], "SP": ["Tet"], "TBP": ["PB", "Atrop"], "PB": ["TBP", "Atrop"], "Atrop": ["TBP", "PB"], "Oct": []}


def parities(kind):
    return (1, -1) if oracle.CHIRAL[kind] else (0,)


def none_patterns(kind, tier):
    """tuples of positions replaced by None"""
    blocks = oracle.BLOCKS[kind]
    lig = [p for b in blocks if len(b) > 2 for p in b]
    pats = [()]
    ones = [(p,) for p in lig]
    twos = list(itertools.combinations(lig, 2))
    if tier == "quick":
        pats += ([] if kind == "Oct" else ones[-1:] + twos[:1])
    elif kind == "Oct":
        pats += ones[:1] + ones[-1:] + twos[:1]      # 36 shards of 720 orderings per pattern: three patterns keep the thorough tier near 15 min
    else:
        pats += ones + twos
    out = []
    for p in pats:
        if p not in out:
            out.append(p)
    return out


def expected_eq(kind, pattern, g, same_parity):
    """oracle: is ordering a∘g with (same/opposite) parity the same arrangement as a, when the
    positions in `pattern` hold None (identical placeholders)?"""
    n = oracle.ARITY[kind]
    a = tuple(None if i in pattern else i for i in range(n))
    b = tuple(a[i] for i in g)
    pa = parities(kind)[0]
    pb = pa if same_parity else -pa
    return oracle.same_arrangement(kind, a, pa, b, pb)


_HEADER = '''import sys
sys.path[:0] = ["/verif", "/repo/src"]
from stereomolgraph.stereodescriptors import {cls} as D


def _distinct(*xs):
    for i in range(len(xs)):
        for j in range(i + 1, len(xs)):
            if xs[i] == xs[j]:
                return False
    return True

'''


def _eq_source(kind, pattern, shards, tag):
    """One CrossHair condition per shard; a shard = list of (perm, expected_same, expected_opp)."""
    n = oracle.ARITY[kind]
    live = [i for i in range(n) if i not in pattern]
    args = ", ".join(f"a{i}: int" for i in live)
    tup = ", ".join("None" if i in pattern else f"a{i}" for i in range(n))
    chiral = oracle.CHIRAL[kind]
    src = _HEADER.format(cls=CLSNAME[kind])
    twins = []
    for si, rows in shards:
        perms = [list(r[0]) for r in rows]
        same = [r[1] for r in rows]
        opp = [r[2] for r in rows]
        for twin in (False, True) if si == shards[0][0] else (False,):
            name = f"{'t' if twin else 'c'}_eq_{kind}_{tag}_{si}"
            if twin:
                twins.append(name)
            pq = "p: int, q: int" if chiral else "z: int"
            ppre = ("    pre: p == 1 or p == -1\n    pre: q == 1 or q == -1\n" if chiral else "    pre: z == 0\n")
            src += f'''
PERMS_{si} = {perms!r}
SAME_{si} = {same!r}
OPP_{si} = {opp!r}


def {name}({args}, k: int, {pq}) -> bool:
    """
    pre: _distinct({", ".join(f"a{i}" for i in live)})
    pre: 0 <= k < {len(rows)}
{ppre}    post: {'False' if twin else '_'}
    """
    a = ({tup},)
    g = PERMS_{si}[k]
    b = tuple([a[i] for i in g])
'''
            if chiral:
                src += f'''    t = D(a, p)
    u = D(b, q)
    exp = SAME_{si}[k] if p == q else OPP_{si}[k]
'''
            else:
                src += f'''    t = D(a, 0)
    u = D(b, 0)
    exp = SAME_{si}[k]
'''
            src += '''    r1 = (t == u)
    r2 = (u == t)
    return r1 == exp and r2 == exp and (t == t)
'''
    return src, twins


def _misc_source(kind, pattern, tag, chunk=None, with_invert=True):
    """invert / unspecified-parity obligations, identifiers unbounded."""
    n = oracle.ARITY[kind]
    live = [i for i in range(n) if i not in pattern]
    args = ", ".join(f"a{i}: int" for i in live)
    tup = ", ".join("None" if i in pattern else f"a{i}" for i in range(n))
    chiral = oracle.CHIRAL[kind]
    allperms = [list(g) for g in oracle.candidate_perms(kind)]
    if chunk is not None:   # unspecified parity must equal *every* rearrangement: the full list is kept but sharded
        allperms = allperms[chunk[0]:chunk[1]]
    src = _HEADER.format(cls=CLSNAME[kind])
    pre_dist = f'    pre: _distinct({", ".join(f"a{i}" for i in live)})\n'
    pvals = "(1, -1)" if chiral else "(0,)"
    # a descriptor with two identical placeholders can coincide with its mirror image
    achiral_by_dup = len(pattern) >= 2
    inv_src = f'''
def c_invert_{kind}_{tag}({args}, p: int) -> bool:
    """
{pre_dist}    pre: p in {pvals}
    post: _
    """
    a = ({tup},)
    t = D(a, p)
    i1 = t.invert()
    i2 = i1.invert()
    ok = (i2 == t) and (i2.atoms == t.atoms) and (i2.parity == t.parity) and (t.atoms == a) and (t.parity == p)
    if {chiral!r}:
        ok = ok and (i1.parity == -p) and (i1.atoms == a)
        if not {achiral_by_dup!r}:
            ok = ok and (i1 != t) and not (i1 == t) and not (t == i1)
    else:
        ok = ok and (i1 == t) and (i1.atoms == a) and (i1.parity == p)
    return ok


def c_invert_used_{kind}_{tag}({args}, p: int) -> bool:
    """
{pre_dist}    pre: p in {pvals}
    post: _
    """
    # the descriptor has been compared before it is inverted (state an instance may have accumulated must not leak into the mirror image)
    a = ({tup},)
    t = D(a, p)
    w = D(a, p)
    m = D(a, -p)
    ok = (t == w) and (w == t) and ((t == m) == (m == t))
    i1 = t.invert()
    i2 = i1.invert()
    ok = ok and (i2 == t) and (i2 == w) and (w == i2) and (i1 == m) and (m == i1)
    if {chiral!r} and not {achiral_by_dup!r}:
        ok = ok and not (i1 == t) and not (t == i1) and not (i1 == w) and not (w == i1) and not (i2 == m)
    return ok


def c_invert_none_{kind}_{tag}({args}) -> bool:
    """
{pre_dist}    post: _
    """
    a = ({tup},)
    t = D(a, None)
    i1 = t.invert()
    return (i1 == t) and (i1.atoms == a) and (i1.parity is None) and (t == t)
'''
    if with_invert:
        src += inv_src
    src += f'''
ALLPERMS = {allperms!r}


def c_unspecified_{kind}_{tag}({args}, k: int, q: int) -> bool:
    """
{pre_dist}    pre: 0 <= k < {len(allperms)}
    pre: q in {pvals} or q == 7
    post: _
    """
    a = ({tup},)
    b = tuple([a[i] for i in ALLPERMS[k]])
    t = D(a, None)
    u = D(b, None if q == 7 else q)
    return (t == u) and (u == t)


def t_unspecified_{kind}_{tag}({args}, k: int) -> bool:
    """
{pre_dist}    pre: 0 <= k < {len(allperms)}
    post: False
    """
    a = ({tup},)
    b = tuple([a[i] for i in ALLPERMS[k]])
    return D(a, None) == D(b, None)
'''
    return src, [f"t_unspecified_{kind}_{tag}"]


def sym_replay(fn, msg):
    """Replay of an A-sym counterexample: parse 'false when calling f(args)' and run natively."""
    import importlib.util
    import re
    import glob
    import os
    m = re.search(r"calling (\w+)\((.*?)\)(?: \(which returns|$)", msg)
    if not m:
        return "unparseable counterexample (treated as reproduced=False): " + msg if False else None
    # regenerate the sources and find the function
    for tier in ("thorough",):
        for u in plan(tier, 0):
            if isinstance(u, Sym) and re.search(rf"^def {re.escape(fn)}\(", u.source, re.M):
                ns = {}
                exec(compile(u.source, u.name, "exec"), ns)
                args = eval("dict(" + m.group(2) + ")") if "=" in m.group(2) else None
                try:
                    res = ns[fn](**args) if args is not None else eval(f"f({m.group(2)})", {"f": ns[fn]})
                except Exception as e:
                    return f"{fn}({m.group(2)}) raised {type(e).__name__}: {e}"
                if res is False:
                    return f"{fn}({m.group(2)}) is False: descriptor relation disagrees with the spatial oracle"
                return None
    return None


def _shard_rows(kind, pattern, nshards):
    perms = oracle.candidate_perms(kind)
    rows = [(g, expected_eq(kind, pattern, g, True), expected_eq(kind, pattern, g, False)) for g in perms]
    size = -(-len(rows) // nshards)
    return [rows[i:i + size] for i in range(0, len(rows), size)]


# ---- hash obligations (A-sel) ---------------------------------------------------------------------
def hash_body(kind, pat, k, p, q, idv):
    kn = KINDS[kind]
    pats = none_patterns(kn, "thorough")
    if pat >= len(pats):
        return None
    perms = oracle.candidate_perms(kn)
    if k >= len(perms):
        return None
    pv = parities(kn)
    if p >= len(pv) + 1 or q >= len(pv) + 1:
        return None
    pa = pv[p] if p < len(pv) else None
    pb = pv[q] if q < len(pv) else None
    n = oracle.ARITY[kn]
    ids = [x for x in IDS if x != 0]
    ids.insert(idv, 0)          # idv = position of the identifier 0 (falsy, sorts before the other positive identifiers, equals False)
    a = tuple(None if i in pats[pat] else ids[i] for i in range(n))
    b = tuple(a[i] for i in perms[k])
    for sib in SIBLINGS[kn]:          # another class of the same arity over the same tuples, hashed first
        for x in (a, b):
            try:
                hash(gl.DESC[sib](x, parities(sib)[0]))
            except Exception:
                pass
    t, u = gl.DESC[kn](a, pa), gl.DESC[kn](b, pb)
    eq = (t == u)
    if pa is not None and pb is not None:
        exp = oracle.same_arrangement(kn, a, pa, b, pb)
        if eq != exp:
            return f"{t!r} == {u!r} is {eq}, spatial oracle says {exp}"
        if eq and hash(t) != hash(u):
            return f"{t!r} == {u!r} but hashes differ"
    else:
        if not eq:
            return f"unspecified parity: {t!r} != {u!r}"
        if pa is None and pb is None and hash(t) != hash(u):
            return f"both unspecified and equal, hashes differ: {t!r} {u!r}"
    if hash(t) != hash(gl.DESC[kn](a, pa)):
        return "hash not deterministic"
    if pa is not None:
        # t has been compared and hashed by now: its mirror image must be indistinguishable from a freshly built one
        ti, fresh = t.invert(), gl.DESC[kn](a, -pa)
        if not (ti == fresh and fresh == ti):
            return f"{t!r}.invert() (after == and hash on the original) != freshly built {fresh!r}"
        if hash(ti) != hash(fresh):
            return f"{t!r}.invert() (after == and hash on the original) hashes differently from the freshly built {fresh!r}"
        if (ti == t) != (fresh == gl.DESC[kn](a, pa)):
            return f"{t!r}.invert() == original is {ti == t}, for freshly built descriptors {fresh == gl.DESC[kn](a, pa)}"
    return None


def tables(tier, seed):
    """Finite table facts (native): shipped groups = oracle PROPER, inversion improper, group axioms."""
    import time
    obs = []
    for kn in KINDS:
        t0 = time.time()
        cls = gl.DESC[kn]
        pr, im = oracle.groups(kn)
        shipped = set(map(tuple, cls.PERMUTATION_GROUP))
        ok = shipped == set(pr)
        detail = "" if ok else f"shipped-PROPER={sorted(shipped - set(pr))} PROPER-shipped={sorted(set(pr) - shipped)}"
        obs.append({"name": f"table_{kn}_group_is_rotation_group", "status": "ok" if ok else "violation", "seconds": round(time.time() - t0, 3),
                    "detail": detail, "replay_func": "vp.props.C04:table_replay", "replay_kw": {"kind": kn}})
        inv = cls.inversion
        ok2 = (inv is None and not oracle.CHIRAL[kn]) or (inv is not None and tuple(inv) in im and tuple(inv) not in pr)
        obs.append({"name": f"table_{kn}_inversion_is_improper", "status": "ok" if ok2 else "violation", "seconds": 0.0,
                    "detail": f"inversion={inv}", "replay_func": "vp.props.C04:table_replay", "replay_kw": {"kind": kn}})
        ok3 = oracle.is_group(pr) and oracle.is_group(pr | im) and len(pr | im) in (len(pr), 2 * len(pr))
        obs.append({"name": f"oracle_{kn}_group_axioms", "status": "ok" if ok3 else "error", "seconds": 0.0})
    return {"obligations": obs, "engine": "tables"}


def table_replay(kind):
    cls = gl.DESC[kind]
    pr, im = oracle.groups(kind)
    shipped = set(map(tuple, cls.PERMUTATION_GROUP))
    if shipped != set(pr):
        g = sorted((shipped - set(pr)) or (set(pr) - shipped))[0]
        a = tuple(range(oracle.ARITY[kind]))
        b = tuple(a[i] for i in g)
        p = parities(kind)[0]
        return (f"{cls.__name__}({a},{p}) == {cls.__name__}({b},{p}) is {cls(a, p) == cls(b, p)} but the ordering is "
                f"{'not ' if g not in pr else ''}related by a proper rotation")
    inv = cls.inversion
    if oracle.CHIRAL[kind] and (inv is None or tuple(inv) not in im or tuple(inv) in pr):
        return f"inversion {inv} of {cls.__name__} is not an improper operation"
    return None


def plan(tier, seed):
    units = []
    nsh = {"Tet": 2, "SP": 2, "TBP": 6, "Oct": 36, "PB": 2, "Atrop": 2}
    for kn in KINDS:
        for pi, pat in enumerate(none_patterns(kn, tier)):
            shards = _shard_rows(kn, pat, nsh[kn])
            # split into modules of <= 2 shards so that modules run in parallel
            step = 1 if kn == "Oct" else 2
            for m0 in range(0, len(shards), step):
                src, twins = _eq_source(kn, pat, list(enumerate(shards))[m0:m0 + step], f"p{pi}")
                units.append(Sym(name=f"eq_{kn}_pat{pi}_{m0}", source=src, twins=twins, timeout=1500,
                                 replay="vp.props.C04:sym_replay", min_conditions=len(shards[m0:m0 + step])))
            nperm = len(oracle.candidate_perms(kn))
            chunks = [None] if nperm <= 120 else [(c, c + 40) for c in range(0, nperm, 40)]
            for ci, ch in enumerate(chunks):
                src, twins = _misc_source(kn, pat, f"p{pi}c{ci}", chunk=ch, with_invert=(ci == 0))
                units.append(Sym(name=f"misc_{kn}_pat{pi}_{ci}", source=src, twins=twins, timeout=1500, replay="vp.props.C04:sym_replay",
                                 min_conditions=4 if ci == 0 else 1))
    units.append(Nat(name="tables", func="vp.props.C04:tables"))
    params = {"kind": (0, 6), "pat": (0, 3 if tier == "quick" else 22), "k": (0, 720), "p": (0, 3), "q": (0, 3), "idv": (0, 7)}
    pre = ["k < (24, 24, 120, 720, 48, 48)[kind]", "p < (3, 2, 3, 3, 2, 3)[kind]", "q < (3, 2, 3, 3, 2, 3)[kind]", "idv < (5, 5, 6, 7, 6, 6)[kind]"]
    if tier == "quick":
        pre.append("idv == 1 or (p == q and p < 2 and pat > 0 and kind != 3)")     # other placements of identifier 0 relative to the placeholders: equal-parity pairs only
        pre.append("kind != 3 or (pat == 0 and (k % 7 == 0 or k < 48))")
    else:
        pre.append("kind != 3 or (pat < 4 and k % 3 == 0)")
        pre.append("idv in (1, 0, 3) or (p == q and pat > 0 and kind != 3)")
        pre.append("idv == 1 or k % 2 == 0 or kind < 2")
        pre.append("kind != 2 or pat < 8")
        pre.append("pat < (11, 11, 16, 22, 11, 11)[kind]")
    units.append(Sel(name="hash", func="vp.props.C04:hash_body", params=params, pre=pre, shard_by=["kind"], timeout=1500,
                     nontrivial="k > 0", min_shard=200))
    return units


MANIFEST = {
    "text": "Symbolic execution (CrossHair + z3) of the real descriptor __eq__/invert with unbounded integer ligand identifiers: for every class, "
            "every ordering, every parity pair and the listed placeholder patterns the verdict of __eq__ is compared, on all paths, with a rotation-group "
            "oracle computed from idealised coordinates; 'Confirmed over all paths' is required for each condition, each module has a refuted "
            "reachability twin. Hash/equality consistency is decided over a finite identifier universe.",
    "note": "Trusted: CrossHair's models of tuple/set/any over symbolic ints, z3, the idealised figures in vp/lib/oracle.py. Bound: <= 2 None placeholders; "
            "identifier values unbounded for ==/invert, finite for hash.",
    "technique": "CrossHair symbolic execution with z3 (unbounded symbolic identifiers) against a coordinate-derived symmetry-group oracle",
}
