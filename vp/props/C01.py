"""C01 - equality never misses (DESIGN.md §5 C01).

Solver-chosen graph (small-graph family or template with a real stereo unit), descriptor group element and flip;
inner conjunction over renamings (all bijections for <= 4 atoms), insertion orders and descriptor re-expressions.
Each variant must compare equal to the original in both directions; equality is reflexive."""
from __future__ import annotations

from vp.lib import eqfam, eqlib, fam, gl
from vp.runner import Sel

FILES = ["src/stereomolgraph/graphs/mg.py", "src/stereomolgraph/graphs/smg.py", "src/stereomolgraph/graphs/crg.py",
         "src/stereomolgraph/graphs/scrg.py", "src/stereomolgraph/algorithms/isomorphism.py",
         "src/stereomolgraph/algorithms/color_refine.py", "src/stereomolgraph/stereodescriptors.py"]
FUNCTIONS = ["MolGraph.__eq__", "StereoMolGraph.__eq__", "CondensedReactionGraph.__eq__", "StereoCondensedReactionGraph.__eq__",
             "is_isomorphic", "relabel_atoms", "vf2pp_all_isomorphisms", "_stereo_feasibility", "_stereo_change_feasibility",
             "color_refine_*", "_StereoMixin.__eq__"]
BOUNDS = {"quick": "all graphs over universe {0,1,2} of the four classes (roles, descriptors with placeholders / unspecified parity, stereo changes; "
                   "listed restrictions) x all renamings + fresh-id shifts; templates star4 (Tet/SP), lonepair, dbond (PB/Atrop), ring4, sn2 with all "
                   "orderings / parities / group elements; centres of degree 1..7 (thorough 8) without descriptor",
          "thorough": "universe {0,1,2,3} for MG/CRG; all decorations; templates star5 (TBP), star6 (Oct, orderings sampled by stride), twocentre"}
OUTSIDE = "graphs whose descriptors name identifiers that are not atoms of the graph; graphs with more than 4 atoms other than the templates (<= 8 atoms); renamings of templates beyond generators + 12 seeded permutations"
ASSUMPTIONS = ["a variant is built through the public API (relabel_atoms or re-insertion); the expected answer 'equal' follows from the construction, no oracle needed"]


def _check(spec, gi, flip, seed=0):
    g = gl.build(spec)
    s0 = gl.snap(g)
    try:
        if not (g == g):
            return "g == g is False"
    except Exception as e:
        return f"g == g raised {type(e).__name__}: {e}"
    vs = []
    try:
        for v in eqlib.variants(spec, gi, flip, seed):
            vs.append(v)
    except Exception as e:
        return f"building the variant after [{vs[-1][0] if vs else 'none'}] through the public API raised {type(e).__name__}: {e}"
    for what, h in vs:
        try:
            r1, r2, r3 = (g == h), (h == g), g.is_isomorphic(h)
            ne = (g != h)
        except Exception as e:
            return f"comparing with variant [{what}] raised {type(e).__name__}: {e}"
        if not (r1 is True and r2 is True and r3 is True and ne is False):
            return f"variant [{what}]: g==h {r1}, h==g {r2}, is_isomorphic {r3}, g!=h {ne}"
    if gl.diff(s0, gl.snap(g)):
        return "comparison changed the graph"
    return None


def small3(cls, gi, flip, **sel):
    return _check(fam.decode(gl.CLS_NAMES[cls], 3, sel), gi, flip)


def small4(cls, gi, flip, **sel):
    return _check(fam.decode(gl.CLS_NAMES[cls], 4, sel), gi, flip)


def template(t, cls, gi, flip, **sel):
    name = TNAMES[t]
    return _check(eqfam.template_spec(name, gl.CLS_NAMES[cls], sel), gi, flip)


TNAMES = ["star4", "lonepair", "dbond", "ring4", "sn2", "twocentre", "star5", "star6", "bare", "annulene"]


def plan(tier, seed, func_mod="vp.props.C01"):
    units = []
    k = 3
    for ci, cname in enumerate(gl.CLS_NAMES):
        kk = 4 if (tier == "thorough" and cname in ("MG", "CRG")) else 3
        params = eqlib.small_unit_params(cname, kk)
        params["gi"] = (0, 3 if gl.is_stereo(cname) else 1)
        params["flip"] = "bool"
        pre = fam.sel_pre(kk) + ["flip == False" if not gl.is_stereo(cname) else "True"]
        pre += ["not xa or (p0 and p1 and b01)"]
        if gl.is_stereo(cname):
            pre += ["ds < 10"]       # descriptors name atoms of the graph or placeholders (a descriptor naming a non-atom makes ==/hash raise: outside)
        if tier == "quick":
            pre += ["el < 2"]
            if cname == "SMG":
                pre += ["gi < 2 or ds in (1, 8, 9)", "el == 0 or ds in (0, 1, 6, 8)"]
            if gl.is_reaction(cname):
                pre += ["role in (0, 1, 3, 4, 6)"]
            if cname == "SCRG":
                pre += ["ds in (0, 1, 3, 8)", "cs in (0, 3, 5, 7)", "role in (0, 4) or (ds == 0 and cs == 0)", "gi < 2", "not xa", "el == 0 or (ds in (0, 8) and cs in (0, 7))",
                        "gi == 0 or ds == 8 or cs == 5", "not flip or gi == 0"]
        elif kk == 4:
            pre += ["not xa", "el < 2 or cls == 0"]
        elif cname == "SCRG":
            pre += ["el < 2", "not xa", "ds in (0, 1, 3, 6, 8, 9)", "role in (0, 1, 3, 4, 6)", "ds in (0, 8) or cs in (0, 3, 7)", "gi < 2 or (ds == 8 and cs == 0)",
                    "not flip or gi == 0", "el == 0 or role in (0, 4)", "ds in (0, 1, 8) or cs == 0"]
        units.append(Sel(name=f"small_{cname}", func=f"{func_mod}:small{kk}", params=params, pre=pre, shard_by=["el"], timeout=1500,
                         nontrivial="p0 and p1"))
    names = ["star4", "lonepair", "dbond", "ring4", "sn2", "bare"] + (["twocentre", "star5", "star6"] if tier == "thorough" else [])
    for (n, c, p, pr) in eqfam.template_units(names):
        params = {"t": (TNAMES.index(n), TNAMES.index(n) + 1), "cls": (gl.CLS_NAMES.index(c), gl.CLS_NAMES.index(c) + 1)}
        params.update(p)
        gmax = {"bare": 1, "star4": 12, "lonepair": 12, "dbond": 4, "ring4": 3, "sn2": 6, "twocentre": 3, "star5": 6, "star6": 24}[n]
        params["gi"] = (0, gmax)
        params["flip"] = "bool"
        pre = list(pr) + (["flip == False"] if n == "bare" else [])
        if tier == "quick":
            pre += {"star4": ["lig in (0, 1)", "gi % 4 == 0", "order % 6 == 0 or order < 2", "chg in (0, 2)", "not flip or gi == 0 or cls == 1"],
                    "lonepair": ["lig in (0, 1)", "gi % 4 == 0", "order % 5 == 0", "chg in (0, 1)"],
                    "dbond": ["sub in (0, 1, 2, 4)", "order % 12 == 0 or order < 2", "chg in (0, 3)", "gi % 2 == 0", "not flip or gi == 0 or cls == 1"],
                    "ring4": ["chg in (0, 2)"], "sn2": ["gi < 3"], "bare": ["k < 8", "k < 7 or cls == 1"]}.get(n, [])
        else:
            # sized so that the thorough tier of C01 / C03 stays near a quarter of an hour on 16 cores (measured 0.4-0.6 CPU-s per input)
            pre += {"star6": ["order % 60 == 0", "gi % 8 == 0", "lig in (0, 1, 3)", "chg in (0, 2)", "not flip or gi == 0"],
                    "star5": ["order % 12 == 0", "chg in (0, 2)", "gi % 3 == 0", "lig < 3"],
                    "star4": ["gi % 4 == 0", "chg < 3", "order % 3 == 0 or order < 4", "lig < 4"],
                    "lonepair": ["gi % 4 == 0", "chg in (0, 2)", "order % 3 == 0", "lig in (0, 1, 3)"],
                    "dbond": ["chg in (0, 2)", "sub in (0, 1, 2, 4, 6)", "order % 6 == 0 or order < 3", "gi % 2 == 0"]}.get(n, [])
        units.append(Sel(name=f"{n}_{c}", func=f"{func_mod}:template", params=params, pre=pre, shard_by=["par"] if "par" in params else [],
                         timeout=1500, nontrivial="k > 2" if n == "bare" else "gi > 0 or flip"))
    return units


MANIFEST = {
    "text": "Bounded model checking: z3 enumerates every small graph (3-identifier universe, thorough 4) of all four classes and every template "
            "instance (tetrahedral, square planar, lone pair, double bond / atrop bond, four-ring with lone pairs, SN2 stereo reaction; thorough also TBP, "
            "octahedral, two centres) with every listed ordering/parity/group element; for each, every renaming (all bijections for <= 4 atoms), another "
            "insertion order and symmetry-equivalent descriptor rewritings (proper rotation, or improper operation with opposite parity) are built through "
            "the public API and must compare equal in both directions; reflexivity and != consistency are checked.",
    "note": "Trusted: CrossHair path exhaustion, z3, the rotation-group oracle used to pick symmetry-equivalent orderings (validated against the descriptor code in C04).",
    "technique": "CrossHair symbolic execution with z3 (solver-enumerated bounded graphs and descriptor re-expressions, real code per path), metamorphic equality",
}
