"""C11 - relabelling is a faithful, reversible renaming (DESIGN.md §5 C11).

Solver-chosen graph and mapping (per identifier: unmapped or an image from a 6-value set incl. 0, a negative and a
large value; the precondition makes the identity-extended map injective on the atoms, so z3 generates exactly the
admissible total/partial mappings incl. swaps).  Inner conjunction: copy / in-place, inverse, follow-up operations."""
from __future__ import annotations

from vp.lib import fam, gl
from vp.props import C09
from vp.runner import Sel

FILES = ["src/stereomolgraph/graphs/mg.py", "src/stereomolgraph/graphs/smg.py", "src/stereomolgraph/graphs/scrg.py"]
FUNCTIONS = ["MolGraph.relabel_atoms", "StereoMolGraph.relabel_atoms", "StereoCondensedReactionGraph.relabel_atoms",
             "follow-up: every public mutator / query on the relabelled graph"]
IMG = (0, 1, 2, 5, -3, 1 << 40)
BOUNDS = {"quick": "graphs: solver-enumerated family over universe {0,1,2} incl. isolated atoms (C09 quick restrictions); mappings: each id unmapped or "
                   f"mapped into {IMG}, identity-extended map injective; copy and in-place; inverse; follow-up: one argument tuple of every op kind (the source of a copy must stay unchanged, all views, after the follow-up edit of the copy); "
                   "templates twocentre, ring4, sn2, dbond (several descriptors / stereo changes per graph) x neighbour transpositions, cyclic shift, pair swaps, reversal, partial map onto fresh identifiers",
          "thorough": "all decorations; universe {0,1,2,3} for MG/CRG; all follow-up argument tuples of the renamed universe"}
OUTSIDE = "non-injective mappings (undefined); universes > 4 ids"
ASSUMPTIONS = C09.ASSUMPTIONS


def img(i, m):
    return i if m == 0 else IMG[m - 1]


def map_pre(k):
    pre = []
    e = lambda i: f"({i} if m{i} == 0 else {IMG!r}[m{i} - 1])"  # noqa: E731
    for i in range(k):
        for j in range(i + 1, k):
            pre.append(f"(not (p{i} and p{j})) or {e(i)} != {e(j)}")
    return pre


def _rename_op(op, f):
    return op


def step(cls, k=3, all_followups=False, **sel):
    cname = gl.CLS_NAMES[cls]
    ms = [sel.pop(f"m{i}") for i in range(k)]
    mapping = {i: img(i, ms[i]) for i in range(k) if ms[i] != 0}
    spec = fam.decode(cname, k, sel)
    # the mapping has to be injective on every identifier the graph mentions, also on identifiers that descriptors name although they are not atoms
    # (decoration ds=10): renaming atom 0 onto such an identifier merges two identifiers - undefined, outside the property
    mentioned = {a for a, _, _ in spec["atoms"]}
    for d in list(spec.get("astereo", [])) + list(spec.get("bstereo", [])):
        mentioned |= {x for x in d[1] if x is not None}
    for ch in list(spec.get("achg", [])) + list(spec.get("bchg", [])):
        for d in ch.values():
            mentioned |= {x for x in d[1] if x is not None}
    images = [mapping.get(x, x) for x in mentioned]
    if len(set(images)) != len(images):
        return None
    model = gl.model_from_spec(spec)
    expected = gl.model_from_spec(spec)
    expected.relabel(mapping)
    exp_snap = expected.snap()
    src_snap = model.snap()

    # --- into a copy -------------------------------------------------------------------------------
    g = gl.build(spec)
    h = g.relabel_atoms(dict(mapping), copy=True)
    if h is g:
        return "relabel_atoms(copy=True) returned the source object"
    if type(h) is not type(g):
        return f"relabel_atoms(copy=True) returned a {type(h).__name__}"
    d = gl.diff(gl.snap(h), exp_snap)
    if d:
        return f"copy: renamed graph differs from renamed model: {d}"
    d = gl.diff(gl.snap(g), src_snap)
    if d:
        return f"copy: source changed: {d}"
    c = gl.coherent(h)
    if c:
        return f"copy: relabelled graph incoherent: {c}"
    # --- in place ----------------------------------------------------------------------------------
    g2 = gl.build(spec)
    r = g2.relabel_atoms(dict(mapping), copy=False)
    d = gl.diff(gl.snap(g2), exp_snap)
    if d:
        return f"in place: graph differs from renamed model: {d}"
    if r is not None:
        d = gl.diff(gl.snap(r), exp_snap)
        if d:
            return f"in place: returned object differs from the renamed graph: {d}"
    c = gl.coherent(g2)
    if c:
        return f"in place: relabelled graph incoherent: {c}"
    # --- inverse -----------------------------------------------------------------------------------
    present = [a for a, _, _ in spec["atoms"]]
    inv = {mapping.get(a, a): a for a in present if mapping.get(a, a) != a}
    back = h.relabel_atoms(inv, copy=True)
    d = gl.diff(gl.snap(back), src_snap)
    if d:
        return f"inverse mapping does not restore the graph: {d}"
    g2.relabel_atoms(inv, copy=False)
    d = gl.diff(gl.snap(g2), src_snap)
    if d:
        return f"in-place inverse mapping does not restore the graph: {d}"
    # --- usable like a freshly built graph -----------------------------------------------------------
    fresh = gl.build(_renamed_spec(spec, mapping))
    for which, maker in (("copy", lambda: gl.build(spec).relabel_atoms(dict(mapping), copy=True)),
                         ("inplace", lambda: _inplace(spec, mapping))):
        x = maker()
        try:
            if not (x == fresh and fresh == x):
                return f"{which}: relabelled graph != freshly built renamed graph"
            if hash(x) != hash(fresh):
                return f"{which}: hash differs from freshly built renamed graph"
            if not (x == gl.build(spec)):
                return f"{which}: relabelled graph != original (C01)"
        except Exception as e:
            return f"{which}: comparing/hashing the relabelled graph raised {type(e).__name__}: {e}"
    # follow-up operations over the *renamed* universe: the ops table speaks about ids 0..k-1 and 9; apply it to a
    # graph relabelled by a mapping, then compare with the model relabelled the same way
    for which in ("mut", "qry"):
        for kind in fam.kinds_for(cname, which):
            ops = fam.ops_of_kind(cname, kind, k)
            if not all_followups:
                ops = ops[:: max(1, len(ops) // 2)][:2]
            for op in ops:
                if kind == "relabel_inplace":
                    cur = [mapping.get(a, a) for a in present]
                    imgs = [op.args[0].get(a, a) for a in cur]
                    if len(set(imgs)) != len(imgs):
                        continue   # follow-up relabelling would merge atoms: undefined, outside the property
                for inplace in (False, True):
                    src = None
                    if inplace:
                        x = _inplace(spec, mapping)
                    else:
                        src = gl.build(spec)
                        src_before = gl.snap(src)
                        x = src.relabel_atoms(dict(mapping), copy=True)
                    m = gl.model_from_spec(spec)
                    m.relabel(mapping)
                    msg = C09.check_op_on(x, m, op, cname, f"after relabel_atoms({mapping}, copy={not inplace})")
                    if msg:
                        return msg
                    if src is not None:
                        # (round 3) "copy=True leaves the source untouched" also holds after the renamed copy has been edited
                        d = gl.diff(gl.snap(src), src_before)
                        if d:
                            return f"source of relabel_atoms({mapping}, copy=True) changed when {op.kind}{op.args} was applied to the copy: {d}"
    return None


def _relabel_core(spec, mapping):
    """copy / in place / inverse / usable-like-fresh obligations for an arbitrary spec (same text as in `step`)"""
    model = gl.model_from_spec(spec)
    expected = gl.model_from_spec(spec)
    expected.relabel(mapping)
    exp_snap = expected.snap()
    src_snap = model.snap()
    # --- into a copy -------------------------------------------------------------------------------
    g = gl.build(spec)
    h = g.relabel_atoms(dict(mapping), copy=True)
    if h is g:
        return "relabel_atoms(copy=True) returned the source object"
    if type(h) is not type(g):
        return f"relabel_atoms(copy=True) returned a {type(h).__name__}"
    d = gl.diff(gl.snap(h), exp_snap)
    if d:
        return f"copy: renamed graph differs from renamed model: {d}"
    d = gl.diff(gl.snap(g), src_snap)
    if d:
        return f"copy: source changed: {d}"
    c = gl.coherent(h)
    if c:
        return f"copy: relabelled graph incoherent: {c}"
    # --- in place ----------------------------------------------------------------------------------
    g2 = gl.build(spec)
    r = g2.relabel_atoms(dict(mapping), copy=False)
    d = gl.diff(gl.snap(g2), exp_snap)
    if d:
        return f"in place: graph differs from renamed model: {d}"
    if r is not None:
        d = gl.diff(gl.snap(r), exp_snap)
        if d:
            return f"in place: returned object differs from the renamed graph: {d}"
    c = gl.coherent(g2)
    if c:
        return f"in place: relabelled graph incoherent: {c}"
    # --- inverse -----------------------------------------------------------------------------------
    present = [a for a, _, _ in spec["atoms"]]
    inv = {mapping.get(a, a): a for a in present if mapping.get(a, a) != a}
    back = h.relabel_atoms(inv, copy=True)
    d = gl.diff(gl.snap(back), src_snap)
    if d:
        return f"inverse mapping does not restore the graph: {d}"
    g2.relabel_atoms(inv, copy=False)
    d = gl.diff(gl.snap(g2), src_snap)
    if d:
        return f"in-place inverse mapping does not restore the graph: {d}"
    # --- usable like a freshly built graph -----------------------------------------------------------
    fresh = gl.build(_renamed_spec(spec, mapping))
    for which, maker in (("copy", lambda: gl.build(spec).relabel_atoms(dict(mapping), copy=True)),
                         ("inplace", lambda: _inplace(spec, mapping))):
        x = maker()
        try:
            if not (x == fresh and fresh == x):
                return f"{which}: relabelled graph != freshly built renamed graph"
            if hash(x) != hash(fresh):
                return f"{which}: hash differs from freshly built renamed graph"
            if not (x == gl.build(spec)):
                return f"{which}: relabelled graph != original (C01)"
        except Exception as e:
            return f"{which}: comparing/hashing the relabelled graph raised {type(e).__name__}: {e}"
    return None


def template_maps(atoms):
    """renamings of a template: transpositions of neighbouring identifiers, a cyclic shift, a swap of all pairs, a partial map onto fresh identifiers"""
    atoms = sorted(atoms)
    out = [{a: b, b: a} for a, b in zip(atoms, atoms[1:])]
    out.append({a: atoms[(i + 1) % len(atoms)] for i, a in enumerate(atoms)})
    out.append({a: (atoms[i + 1] if i % 2 == 0 else atoms[i - 1]) for i, a in enumerate(atoms[: len(atoms) // 2 * 2])})
    out.append({atoms[0]: max(atoms) + 5, atoms[-1]: max(atoms) + 9})
    out.append({a: atoms[len(atoms) - 1 - i] for i, a in enumerate(atoms)})
    return out


def template(t, cls, mi, **sel):
    """templates with several stereo units / stereo changes (two centres, four-ring, SN2 reaction, double bond) under identifier-permuting renamings"""
    from vp.lib import eqfam, tmpl
    from vp.props import C01
    spec = eqfam.template_spec(C01.TNAMES[t], gl.CLS_NAMES[cls], sel)
    maps = template_maps(tmpl.atoms_of(spec))
    return _relabel_core(spec, maps[mi % len(maps)])


def _inplace(spec, mapping):
    g = gl.build(spec)
    g.relabel_atoms(dict(mapping), copy=False)
    return g


def _renamed_spec(spec, mapping):
    f = lambda x: mapping.get(x, x) if x is not None else None  # noqa: E731
    fd = lambda d: None if d is None else (d[0], tuple(f(x) for x in d[1]), d[2])  # noqa: E731
    s = dict(spec)
    s["atoms"] = [(f(a), el, at) for a, el, at in spec["atoms"]]
    s["bonds"] = [(f(a), f(b), r, at) for a, b, r, at in spec["bonds"]]
    s["astereo"] = [fd(d) for d in spec["astereo"]]
    s["bstereo"] = [fd(d) for d in spec["bstereo"]]
    s["achg"] = [{c: fd(d) for c, d in ch.items()} for ch in spec["achg"]]
    s["bchg"] = [{c: fd(d) for c, d in ch.items()} for ch in spec["bchg"]]
    return s


def step3(**kw):
    return step(k=3, **kw)


def step3t(**kw):
    return step(k=3, all_followups=True, **kw)


def step4(**kw):
    return step(k=4, all_followups=False, **kw)


def plan(tier, seed):
    units = []
    from vp.lib import eqfam
    from vp.props import C01
    for (n, c, p, pr) in eqfam.template_units(["twocentre", "ring4", "sn2", "dbond"]):
        params = {"t": (C01.TNAMES.index(n), C01.TNAMES.index(n) + 1), "cls": (gl.CLS_NAMES.index(c), gl.CLS_NAMES.index(c) + 1), "mi": (0, 10)}
        params.update(p)
        pre = list(pr) + {"twocentre": ["lig < 2", "mi < 7"], "ring4": ["mi < 10"], "sn2": ["mi < 9"], "dbond": ["sub in (1, 4)", "order % 12 == 0", "mi < 9"]}[n]
        if tier == "quick":
            pre += {"twocentre": ["par == par2 or chg > 0"], "dbond": ["kind == 0 or chg > 1"]}.get(n, [])
        units.append(Sel(name=f"template_{n}_{c}", func="vp.props.C11:template", params=params, pre=pre, shard_by=[], timeout=1500, nontrivial="mi > 0"))
    for u in C09.plan(tier, seed):
        if not u.name.startswith("mut_"):
            continue
        k = 4 if "p3" in u.params else 3
        f = {3: "step3" if tier == "quick" else "step3t", 4: "step4"}[k]
        params = dict(u.params)
        for i in range(k):
            params[f"m{i}"] = (0, 7)
        pre = list(u.pre) + map_pre(k) + [f"p{i} or m{i} == 0" for i in range(k)]
        if tier == "quick":
            pre += ["not xa"]
            cname = u.name[4:]
            pre += ["m0 in (0, 2, 4, 6)", "m1 in (0, 1, 3, 5)", "m2 in (0, 1, 2, 6)"]
            if cname != "MG":
                pre += ["m0 in (0, 2, 6)", "m1 in (0, 1, 5)"]
            if cname == "SMG":
                pre += ["ds in (0, 1, 8, 9)", "ds in (0, 8) or m2 == 0"]
            if cname == "CRG":
                pre += ["role in (0, 1, 3)"]
            if cname == "SCRG":
                pre += ["ds in (0, 8)", "cs in (0, 7)", "role == 0 or (ds == 0 and cs == 0)", "p0 and p1", "m2 in (0, 2)"]
        if k == 4:
            pre += ["el == 0", "m3 in (0, 6)", "m2 in (0, 5)", "m1 in (0, 3, 4)", "m0 in (0, 2, 6)", "not xa"]
            if "role" in params:
                pre += ["role in (0, 1, 3)"]
        elif tier == "thorough":
            pre += ["m0 in (0, 2, 6)", "m1 in (0, 1, 5)", "m2 in (0, 1, 6)", "el == 0", "not xa"]
            if "ds" in params:
                pre += ["ds != 10"]     # a descriptor naming an identifier that is not an atom makes == / hash raise (before and after renaming): the 'usable like a fresh graph' clause has nothing to compare; C09 / C19 keep the decoration
            if u.name.endswith("SCRG"):
                pre += ["ds in (0, 1, 8, 9)", "cs in (0, 3, 5, 7)", "ds == 0 or cs == 0 or (ds == 8 and cs == 7)", "role in (0, 3, 6) or (ds == 0 and cs == 0)", "m0 in (0, 2, 6)"]
        units.append(Sel(name="relabel_" + u.name[4:], func=f"vp.props.C11:{f}", params=params, pre=pre, shard_by=u.shard_by,
                         timeout=u.timeout, nontrivial="m0 + m1 + m2 > 0"))
    return units


MANIFEST = {
    "text": "Bounded model checking: z3 enumerates every graph of the family and every injective total/partial mapping into a 6-value image set "
            "(swaps, zero, negative and large ids); relabel_atoms is executed on the real classes in place and into a copy and compared with the "
            "renamed reference model, with the inverse mapping, with a freshly built renamed graph (==, hash), and every public op kind is then run "
            "on the relabelled graph against the model.",
    "note": "Trusted: CrossHair path exhaustion, z3, reference model. Follow-up operations: two argument tuples per op kind in quick, all in thorough (k=3).",
    "technique": "CrossHair symbolic execution with z3 (solver-generated injective mappings and bounded graphs, real code per path) against a reference model",
}
