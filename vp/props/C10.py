"""C10 - derived graphs share no mutable state with their source (DESIGN.md §5 C10).

Solver-chosen source graph; inner finite conjunction over derivations x side x follow-up edits (public mutators
with applicable arguments).  After an edit on one side the snapshot of the other side must be unchanged."""
from __future__ import annotations

from vp.lib import fam, gl
from vp.props import C09
from vp.runner import Sel

FILES = C09.FILES + ["src/stereomolgraph/experimental.py"]
FUNCTIONS = ["copy", "copy-constructors of the four classes", "relabel_atoms(copy=True)", "subgraph", "compose", "enantiomer",
             "reverse_reaction", "reactant", "product", "JSONHandler round trip", "every public mutator as follow-up edit"]
BOUNDS = {"quick": "source graphs: solver-enumerated family over universe {0,1,2} (C09 quick restrictions); every derivation; both sides; "
                   "per op kind up to 2 applicable argument tuples; JSON reload: the graph loaded first from a payload is edited, a second load of the same payload must be unaffected",
          "thorough": "all decorations, universe {0,1,2,3} for MG/CRG, up to 8 argument tuples per kind"}
OUTSIDE = "mutation of objects obtained from views by means other than the public mutators (e.g. assigning descriptor attributes)"
ASSUMPTIONS = ["an edit is a call of a public mutator; state is observed through the snapshot of all public views"]


def derivations(cname):
    d = [
        ("copy", lambda g: g.copy()),
        ("copy_construct", lambda g: type(g)(g)),
        ("relabel_copy_identity", lambda g: g.relabel_atoms({}, copy=True)),
        ("relabel_copy_swap", lambda g: g.relabel_atoms({0: 1, 1: 0}, copy=True)),
        ("subgraph_all", lambda g: g.subgraph(list(g.atoms))),
        ("subgraph_some", lambda g: g.subgraph([a for a in g.atoms if a != 2])),
        ("compose_self", lambda g: type(g).compose([g])),
        ("compose_two", lambda g: type(g).compose([g.subgraph([a for a in g.atoms if a != 0]), g])),
        ("upcast_MolGraph", lambda g: gl.MolGraph(g)),
        ("json_roundtrip", lambda g: _json(g)),
    ]
    if gl.is_stereo(cname):
        d += [("enantiomer", lambda g: g.enantiomer()), ("upcast_StereoMolGraph", lambda g: gl.StereoMolGraph(g))]
    if gl.is_reaction(cname):
        d += [("reverse_reaction", lambda g: g.reverse_reaction()), ("reactant", lambda g: g.reactant()),
              ("product", lambda g: g.product()), ("reactant_noattr", lambda g: g.reactant(keep_attributes=False))]
    return d


def _json(g):
    from stereomolgraph.experimental import JSONHandler
    return JSONHandler.json_deserialize(JSONHandler.json_serialize(g))


def _cname_of(g):
    return {v.__name__: k for k, v in gl.CLS.items()}[type(g).__name__]


def _edits(cname, g, k, per_kind):
    """Applicable mutator instances for graph g (the model accepts them), a few per kind."""
    m = gl.model_of(g)
    out = []
    for kind in fam.kinds_for(cname, "mut"):
        n = 0
        for op in fam.ops_of_kind(cname, kind, k):
            expect, _ = fam.apply_model(m, op)
            if expect == "ok":
                out.append(op)
                n += 1
                if n >= per_kind:
                    break
    return out


def step(cls, k=3, per_kind=4, **sel):
    cname = gl.CLS_NAMES[cls]
    spec = fam.decode(cname, k, sel)
    nchecks = 0
    # two loads of one JSON payload are independent graphs: editing the first must not show in the second
    from stereomolgraph.experimental import JSONHandler
    try:
        txt = JSONHandler.json_serialize(gl.build(spec))
        h0 = JSONHandler.json_deserialize(txt)
    except Exception:
        h0 = None
    first = h0
    for op in ([] if h0 is None else _edits(_cname_of(h0), h0, k, per_kind)):
        h0 = first if first is not None else JSONHandler.json_deserialize(txt)   # the very first load of this payload is edited, too
        first = None
        ref = gl.snap(h0)
        try:
            op.real(h0)
        except Exception:
            pass
        h2 = JSONHandler.json_deserialize(txt)
        d = gl.diff(ref, gl.snap(h2))
        if d:
            return f"json reload: after edit {op} on the graph loaded first, loading the same payload again gives a different graph: {d}"
    for dname, derive in derivations(cname):
        try:
            g = gl.build(spec)
            h = derive(g)
        except Exception as e:
            if dname in ("json_roundtrip", "reactant", "product", "reactant_noattr"):
                continue   # lossless JSON is C15, reactant/product of role-inconsistent decorations is C08; here only independence of a successful result
            return f"derivation {dname} raised {type(e).__name__}: {e}"
        hname = _cname_of(h)
        for side in ("source", "derived"):
            edit_cls = cname if side == "source" else hname
            edits = _edits(edit_cls, g if side == "source" else h, k, per_kind)
            for op in edits:
                g = gl.build(spec)
                h = derive(g)
                touched, other = (g, h) if side == "source" else (h, g)
                before = gl.snap(other)
                try:
                    op.real(touched)
                except Exception:
                    pass   # behaviour of the edit itself is C09's business
                after = gl.snap(other)
                d = gl.diff(before, after)
                nchecks += 1
                if d:
                    return f"{dname}: edit {op} on the {side} is visible through the other graph: {d}"
    return None


def step3(**kw):
    return step(k=3, per_kind=2, **kw)


def step3t(**kw):
    return step(k=3, per_kind=4, **kw)


def step4(**kw):
    return step(k=4, per_kind=3, **kw)


def plan(tier, seed):
    units = []
    for u in C09.plan(tier, seed):
        if not u.name.startswith("mut_"):
            continue
        f = {"step_mut3": "step3", "step_mut3t": "step3t", "step_mut4": "step4"}[u.func.split(":")[1]]
        pre = list(u.pre) + ["p0 or p1 or p2"]
        units.append(Sel(name="indep_" + u.name[4:], func=f"vp.props.C10:{f}", params=u.params, pre=pre, shard_by=u.shard_by,
                         timeout=u.timeout, nontrivial="b01 or b02 or b12"))
    return units


MANIFEST = {
    "text": "Bounded model checking: for every solver-enumerated source graph (all four classes, 3-identifier universe; thorough 4) every derivation "
            "operation is applied, then every applicable public mutator is executed on either side and the snapshot of all public views of the "
            "untouched side is compared before/after.",
    "note": "Trusted: CrossHair path exhaustion, z3, snapshot completeness (vp/lib/gl.py snap). Edits are public mutator calls; per op kind a bounded "
            "number of argument tuples.",
    "technique": "CrossHair symbolic execution with z3 (solver-enumerated bounded source graphs, real code per path), snapshot comparison",
}
