"""C15 - JSON serialisation round-trips every graph losslessly (DESIGN.md §5 C15)."""
from __future__ import annotations

from vp.lib import eqfam, eqlib, fam, gl, tmpl
from vp.props import C01
from vp.runner import Sel

FILES = ["src/stereomolgraph/experimental.py", "src/stereomolgraph/stereodescriptors.py", "src/stereomolgraph/graphs/crg.py",
         "src/stereomolgraph/graphs/scrg.py"]
FUNCTIONS = ["JSONHandler.as_dict", "JSONHandler.json_serialize", "JSONHandler.json_deserialize", "JSONHandler._stereo_from_payload"]
BOUNDS = {"quick": "all four classes: small family over {0,1,2} (formed / broken / fleeting roles, descriptors of class Tet/SP/PlanarBond/AtropBond with placeholders and "
                   "unspecified parity, every listed combination of broken / formed / fleeting stereo changes) and templates for every descriptor class; "
                   "identifier variants: as built, shifted to negative / zero / 2^40; small identifiers mixed with identifiers in [2^63, 2^64), and identifiers beyond 2^64 / 10^30; identifier sets that differ in one identifier of equal CPython hash (-1 / -2, 0 / 2^61-1); the loaded graph is edited and the same text loaded again",
          "thorough": "all decorations; templates star5, star6, twocentre"}
OUTSIDE = "attributes other than element and reaction role (not part of the property); graphs larger than the bounds"
ASSUMPTIONS = ["json is a C extension: graphs are concrete when serialised (engine A-sel)"]

IDMAPS = [None, {0: -7, 1: 0, 2: 1 << 40, 3: 5, 4: 11, 5: -1, 6: 3, 7: 9},
          # (round 3) identifiers around and beyond the 64-bit boundaries: Python ints and JSON integers are unbounded, NumPy integer arrays are not
          {0: 5, 1: (1 << 63) + 1, 2: (1 << 63) + 3, 3: -7, 4: (1 << 63) + 5, 5: 1 << 62, 6: (1 << 64) - 1, 7: 11},
          # identifier sets that differ in one identifier only, chosen so that the two identifiers have the same CPython hash (-1 / -2, 0 / 2^61-1)
          {0: -1, 1: 3, 2: 4, 3: 6, 4: 8, 5: 10, 6: 12, 7: 14}, {0: -2, 1: 3, 2: 4, 3: 6, 4: 8, 5: 10, 6: 12, 7: 14},
          {0: 3, 1: 0, 2: 4, 3: 6, 4: 8, 5: 10, 6: 12, 7: 14}, {0: 3, 1: (1 << 61) - 1, 2: 4, 3: 6, 4: 8, 5: 10, 6: 12, 7: 14},
          {0: (1 << 63) + 1, 1: 1 << 64, 2: -(1 << 63) - 1, 3: 10 ** 30, 4: 1 << 63, 5: (1 << 63) - 1, 6: -(1 << 63), 7: 2}]
NMAPS = {"quick": 5, "thorough": 7}


def _strip(s):
    """views the property speaks about: atoms+elements, bonds+roles, descriptors, changes"""
    t = dict(s)
    t["atoms"] = {a: {"atom_type": d["atom_type"]} for a, d in s["atoms"].items()}
    t["bonds"] = {b: ({"reaction": d["reaction"]} if "reaction" in d else {}) for b, d in s["bonds"].items()}
    return t


def _check(spec, nmaps=8):
    for idmap in IDMAPS[:nmaps]:
        sp = spec if idmap is None else tmpl.rename(spec, idmap)
        sp = dict(sp)
        sp["atoms"] = [(a, el, {}) for a, el, _ in sp["atoms"]]
        sp["bonds"] = [(a, b, r, {}) for a, b, r, _ in sp["bonds"]]
        orders = (False, True) if sp["cls"] == "SCRG" and (sp.get("achg") or sp.get("bchg")) else (False,)
        for changes_first in orders:
            msg = _roundtrip(sp, changes_first)
            if msg:
                return msg
    return None


def _roundtrip(sp, changes_first):
    from stereomolgraph.experimental import JSONHandler
    g = gl.build(sp, changes_first=changes_first)
    s0 = gl.snap(g)
    d = gl.diff(_strip(s0), _strip(gl.model_from_spec(sp).snap()))
    if d:
        return f"graph built from the spec (stereo changes set {'before' if changes_first else 'after'} the static descriptors) differs from the model: {d}"
    try:
        txt = JSONHandler.json_serialize(g)
    except Exception as e:
        return f"json_serialize raised {type(e).__name__}: {e}"
    if gl.diff(gl.snap(g), s0):
        return "json_serialize changed the graph"
    try:
        h = JSONHandler.json_deserialize(txt)
    except Exception as e:
        return f"json_deserialize raised {type(e).__name__}: {e} on {txt[:200]}"
    if type(h) is not type(g):
        return f"round trip changed the class: {type(g).__name__} -> {type(h).__name__}"
    d = gl.diff(_strip(gl.snap(h)), _strip(s0))
    if d:
        return f"round trip not identical: {d}"
    try:
        if not (h == g and g == h):
            return "round-tripped graph != original"
        if hash(h) != hash(g):
            return "round-tripped graph has a different hash"
    except Exception as e:
        return f"comparing the round-tripped graph raised {type(e).__name__}: {e}"
    c = gl.coherent(h)
    if c:
        return f"deserialised graph incoherent: {c}"
    # the loaded graph is edited, then the same text is loaded again: still the original
    try:
        fresh_id = max([a for a in h.atoms if isinstance(a, int)] + [0]) + 3
        h.add_atom(fresh_id, "He")
        for a in list(h.atoms)[:1]:
            h.set_atom_attribute(a, "atom_type", "Ne")
        h2 = JSONHandler.json_deserialize(txt)
    except Exception as e:
        return f"editing the loaded graph / loading the text again raised {type(e).__name__}: {e}"
    d = gl.diff(_strip(gl.snap(h2)), _strip(s0))
    if d:
        return f"second load of the same JSON text (after the first loaded graph was edited) differs from the original: {d}"
    return None


def small3(cls, **sel):
    return _check(fam.decode(gl.CLS_NAMES[cls], 3, sel))


def small4(cls, **sel):
    return _check(fam.decode(gl.CLS_NAMES[cls], 4, sel))


def template(t, cls, **sel):
    return _check(eqfam.template_spec(C01.TNAMES[t], gl.CLS_NAMES[cls], sel))


def plan(tier, seed):
    return eqlib.family_units(tier, "vp.props.C15")


MANIFEST = {
    "text": "Bounded model checking: z3 enumerates every small graph of the four classes (all bond roles incl. fleeting, descriptors with placeholders / unspecified "
            "parity, all listed stereo-change combinations) and every template instance (all six descriptor classes), each also renamed onto negative / zero / "
            "2^40 identifiers; json_serialize + json_deserialize run on the real code and class, atoms, elements, bonds, roles, descriptors (exact atoms and "
            "parity) and stereo changes must be identical, the result equal with equal hash.",
    "note": "Trusted: CrossHair path exhaustion, z3, snapshot completeness. Extra attributes are outside the property.",
    "technique": "CrossHair symbolic execution with z3 (solver-enumerated bounded graphs, real serializer per path), snapshot identity",
}
