"""C08 - reaction graphs decompose and reverse faithfully (DESIGN.md §5 C08)."""
from __future__ import annotations

import itertools

from vp.lib import fam, gl, iso, oracle
from vp.runner import Sel

FILES = ["src/stereomolgraph/graphs/crg.py", "src/stereomolgraph/graphs/scrg.py"]
FUNCTIONS = ["CondensedReactionGraph.from_graphs", "StereoCondensedReactionGraph.from_graphs", "reactant", "product", "_ts", "reverse_reaction",
             "get_formed_bonds", "get_broken_bonds", "get_fleeting_bonds"]
BOUNDS = {"quick": "common atom set {0,1,2} (elements C,H,O) and a 4-atom centre {0..3}; every reactant / product bond set, optional TS with every superset of R∪P; "
                   "descriptor choice per structure on atom 0 (absent, Tet+, Tet-, SP over the structure's actual neighbours) and on bond 0-1 (absent, PlanarBond, "
                   "AtropBond+/-) ; every instance also on identifiers 0, 8, 16, 24 (colliding modulo 8) with the product graph's bonds added with swapped arguments and the TS graph's atoms inserted in reverse order",
          "thorough": "adds a 6-atom SN2 centre whose descriptor changes class between R (Tet), TS (TBP) and P (Tet), all parities"}
OUTSIDE = "more than one decorated atom and one decorated bond per structure; atom sets beyond the bounds; unspecified parities in the 'exactly the original descriptors' clause (as the property says)"
ASSUMPTIONS = ["descriptors are stereo-valid in their own structure (listing bonded neighbours), as produced by perception / import"]

EL = ("C", "H", "O", "F", "Cl", "Br")
PAIRS3 = [(0, 1), (0, 2), (1, 2)]
PAIRS4 = [(0, 1), (0, 2), (0, 3), (1, 2)]


def _mk(cname, n, bonds, adesc, bdesc):
    s = gl.empty_spec(cname)
    s["atoms"] = [(i, EL[i], {}) for i in range(n)]
    s["bonds"] = [(a, b, None, {}) for (a, b) in bonds]
    nb0 = sorted(b if a == 0 else a for (a, b) in bonds if 0 in (a, b))
    if gl.is_stereo(cname):
        if adesc == 1:
            s["astereo"] = [("Tet", tuple(([0] + nb0 + [None] * 4)[:5]), 1)]
        elif adesc == 2:
            s["astereo"] = [("Tet", tuple(([0] + nb0 + [None] * 4)[:5]), -1)]
        elif adesc == 3:
            s["astereo"] = [("SP", tuple(([0] + nb0 + [None] * 4)[:5]), 0)]
        if bdesc and (0, 1) in bonds:
            l0 = [x for x in nb0 if x != 1]
            nb1 = sorted(b if a == 1 else a for (a, b) in bonds if 1 in (a, b) and 0 not in (a, b))
            at = tuple((l0 + [None, None])[:2]) + (0, 1) + tuple((nb1 + [None, None])[:2])
            s["bstereo"] = [{1: ("PB", at, 0), 2: ("Atrop", at, 1), 3: ("Atrop", at, -1)}[bdesc]]
    return s


def _eq_snap_desc(real, exp, what):
    """snapshots equal, descriptors compared with the rotation-group oracle"""
    for key in ("atoms", "bonds"):
        if real[key] != exp[key]:
            return f"{what}: view '{key}' differs: {real[key]} vs {exp[key]}"
    for key in ("astereo", "bstereo"):
        r, e = real.get(key, {}), exp.get(key, {})
        if set(r) != set(e):
            return f"{what}: {key} on {sorted(r, key=repr)} but original has {sorted(e, key=repr)}"
        for k in e:
            if not (r[k][0] == e[k][0] and oracle.desc_equal(r[k], e[k])):
                return f"{what}: descriptor {r[k]} is not the original {e[k]}"
    return None


IDVARIANT = {0: 0, 1: 8, 2: 16, 3: 24}     # identifiers that collide modulo 8 (set iteration order of small ints)


def _check(cname, n, pairs, rb, pb, has_ts, tb, ra, pa, ta, rbd, pbd, tbd):
    for variant in (0, 1):
        msg = _check1(cname, n, pairs, rb, pb, has_ts, tb, ra, pa, ta, rbd, pbd, tbd, variant)
        if msg:
            return msg if variant == 0 else f"[identifiers renamed {IDVARIANT}, product bonds added as (b, a)] {msg}"
    return None


def _check1(cname, n, pairs, rb, pb, has_ts, tb, ra, pa, ta, rbd, pbd, tbd, variant):
    R = [p for i, p in enumerate(pairs) if rb >> i & 1]
    P = [p for i, p in enumerate(pairs) if pb >> i & 1]
    T = sorted(set(R) | set(P) | {p for i, p in enumerate(pairs) if tb >> i & 1})
    stereo = gl.is_stereo(cname)
    base = "SMG" if stereo else "MG"
    rs, ps, ts = _mk(base, n, R, ra, rbd), _mk(base, n, P, pa, pbd), _mk(base, n, T, ta, tbd)
    if variant == 1:
        # the same reaction on identifiers 0, 8, 16, 24, the three graphs built independently: product bonds are added with the arguments swapped
        from vp.lib import tmpl
        rs, ps, ts = tmpl.rename(rs, IDVARIANT), tmpl.rename(ps, IDVARIANT), tmpl.rename(ts, IDVARIANT)
        ps = dict(ps)
        ps["bonds"] = [(b, a, r, at) for (a, b, r, at) in ps["bonds"]]
        ts = dict(ts)           # (round 3) the transition-structure graph lists its atoms in another insertion order (only the atom sets have to agree)
        ts["atoms"] = list(reversed(ts["atoms"]))
        f = lambda prs: [(IDVARIANT[a], IDVARIANT[b]) for a, b in prs]  # noqa: E731
        R, P, T = f(R), f(P), f(T)
    gr, gp, gt = gl.build(rs), gl.build(ps), gl.build(ts)
    sr, sp, st = gl.snap(gr), gl.snap(gp), gl.snap(gt)
    cls = gl.CLS[cname]
    try:
        crg = cls.from_graphs(gr, gp, gt) if has_ts else cls.from_graphs(gr, gp)
    except Exception as e:
        return f"from_graphs raised {type(e).__name__}: {e}"
    if type(crg) is not cls:
        return f"from_graphs returned {type(crg).__name__}"
    for g, s, nm in ((gr, sr, "reactant"), (gp, sp, "product"), (gt, st, "ts")):
        if gl.diff(gl.snap(g), s):
            return f"from_graphs modified its {nm} argument"
    c = gl.coherent(crg)
    if c:
        return f"reaction graph incoherent: {c}"
    fs = lambda bs: {frozenset(b) for b in bs}  # noqa: E731
    if crg.get_formed_bonds() != fs(P) - fs(R):
        return f"formed bonds {crg.get_formed_bonds()} != product - reactant {fs(P) - fs(R)}"
    if crg.get_broken_bonds() != fs(R) - fs(P):
        return f"broken bonds {crg.get_broken_bonds()} != reactant - product"
    exp_fl = (fs(T) - fs(R) - fs(P)) if has_ts else set()
    if crg.get_fleeting_bonds() != exp_fl:
        return f"fleeting bonds {crg.get_fleeting_bonds()} != TS - (R ∪ P) {exp_fl}"
    if set(crg.bonds) != fs(R) | fs(P) | exp_fl:
        return "bond set is not the union"
    s_crg = gl.snap(crg)
    for nm, orig in (("reactant", sr), ("product", sp)):
        try:
            x = getattr(crg, nm)()
        except Exception as e:
            return f"{nm}() raised {type(e).__name__}: {e}"
        want = gl.StereoMolGraph if stereo else gl.MolGraph
        if type(x) is not want:
            return f"{nm}() returned {type(x).__name__}"
        m = _eq_snap_desc(gl.snap(x), orig, f"{nm}()")
        if m:
            return m
        if gl.diff(gl.snap(crg), s_crg):
            return f"{nm}() modified the reaction graph"
    # reverse
    try:
        rev = crg.reverse_reaction()
    except Exception as e:
        return f"reverse_reaction raised {type(e).__name__}: {e}"
    if gl.diff(gl.snap(crg), s_crg):
        return "reverse_reaction modified the reaction graph"
    m = _eq_snap_desc(gl.snap(rev.reactant()), sp, "reverse.reactant() vs product")
    if m:
        return m
    m = _eq_snap_desc(gl.snap(rev.product()), sr, "reverse.product() vs reactant")
    if m:
        return m
    if rev.get_fleeting_bonds() != crg.get_fleeting_bonds():
        return "reverse_reaction lost fleeting bonds"
    if stereo:
        sv = gl.snap(rev)
        for key in ("achg", "bchg"):
            for k, cd in s_crg[key].items():
                if cd.get("fleeting") != sv[key].get(k, {}).get("fleeting"):
                    return f"reverse_reaction changed fleeting stereo of {k}"
        if sv["astereo"] != s_crg["astereo"] or sv["bstereo"] != s_crg["bstereo"]:
            return "reverse_reaction changed static stereo"
    try:
        rr = rev.reverse_reaction()
    except Exception as e:
        return f"reverse twice raised {type(e).__name__}: {e}"
    d = gl.diff(gl.snap(rr), s_crg)
    if d:
        return f"reverse twice is not identical: {d}"
    return None


def _bits(kw, name, n):
    return sum((1 << i) for i in range(n) if kw.get(f"{name}{i}"))


def crg3(has_ts, **kw):
    return _check("CRG", 3, PAIRS3, _bits(kw, "r", 3), _bits(kw, "p", 3), has_ts, _bits(kw, "t", 3), 0, 0, 0, 0, 0, 0)


def scrg3(has_ts, ra, pa, ta, rbd, pbd, tbd, **kw):
    return _check("SCRG", 3, PAIRS3, _bits(kw, "r", 3), _bits(kw, "p", 3), has_ts, _bits(kw, "t", 3), ra, pa, ta, rbd, pbd, tbd)


def crg4(has_ts, **kw):
    return _check("CRG", 4, PAIRS4, _bits(kw, "r", 4), _bits(kw, "p", 4), has_ts, _bits(kw, "t", 4), 0, 0, 0, 0, 0, 0)


def scrg4(has_ts, ra, pa, ta, rbd, pbd, tbd, **kw):
    return _check("SCRG", 4, PAIRS4, _bits(kw, "r", 4), _bits(kw, "p", 4), has_ts, _bits(kw, "t", 4), ra, pa, ta, rbd, pbd, tbd)


def sn2(pr, pp, pt, lig_r, lig_p):
    """6-atom centre: descriptor changes class R (Tet) -> TS (TBP) -> P (Tet)"""
    P3 = (1, -1)
    def mol(bonds, d):
        s = gl.empty_spec("SMG")
        s["atoms"] = [(i, EL[i], {}) for i in range(6)]
        s["bonds"] = [(0, b, None, {}) for b in bonds]
        s["astereo"] = [d]
        return gl.build(s)
    import itertools as it
    ordr = list(it.permutations((1, 2, 3, 5)))[lig_r]
    ordp = list(it.permutations((1, 2, 3, 4)))[lig_p]
    gr = mol((1, 2, 3, 5), ("Tet", (0,) + ordr, P3[pr]))
    gp = mol((1, 2, 3, 4), ("Tet", (0,) + ordp, P3[pp]))
    gt = mol((1, 2, 3, 4, 5), ("TBP", (0, 4, 5, 1, 2, 3), P3[pt]))
    sr, sp, st = gl.snap(gr), gl.snap(gp), gl.snap(gt)
    crg = gl.CLS["SCRG"].from_graphs(gr, gp, gt)
    m = _eq_snap_desc(gl.snap(crg.reactant()), sr, "reactant()") or _eq_snap_desc(gl.snap(crg.product()), sp, "product()")
    if m:
        return m
    if crg.get_formed_bonds() != {frozenset((0, 4))} or crg.get_broken_bonds() != {frozenset((0, 5))} or crg.get_fleeting_bonds():
        return "bond roles wrong"
    ts = gl.snap(crg._ts())
    if not oracle.desc_equal(ts["astereo"].get(0), st["astereo"][0]):
        return f"TS stereo lost: {ts['astereo'].get(0)}"
    rev = crg.reverse_reaction()
    m = _eq_snap_desc(gl.snap(rev.reactant()), sp, "reverse.reactant()") or _eq_snap_desc(gl.snap(rev.product()), sr, "reverse.product()")
    if m:
        return m
    if gl.diff(gl.snap(rev.reverse_reaction()), gl.snap(crg)):
        return "reverse twice not identical"
    return None


def _bond_params(n):
    p = {}
    for nm in ("r", "p", "t"):
        for i in range(n):
            p[f"{nm}{i}"] = "bool"
    return p


def _bond_pre(n):
    # TS extra bits only where neither R nor P has the bond (canonical); no TS bits without a TS
    return [f"not t{i} or (has_ts and not r{i} and not p{i})" for i in range(n)]


def plan(tier, seed):
    units = []
    base = dict(_bond_params(3))
    base["has_ts"] = "bool"
    pre = _bond_pre(3)
    units.append(Sel(name="crg3", func="vp.props.C08:crg3", params=dict(base), pre=list(pre), shard_by=[], timeout=1200))
    sp = dict(base)
    sp.update({"ra": (0, 4), "pa": (0, 4), "ta": (0, 4), "rbd": (0, 4), "pbd": (0, 4), "tbd": (0, 4)})
    spre = list(pre) + ["has_ts or (ta == 0 and tbd == 0)", "rbd == 0 or r0", "pbd == 0 or p0", "tbd == 0 or r0 or p0 or t0"]
    if tier == "quick":
        spre += ["rbd in (0, 1, 2)", "pbd in (0, 1, 3)", "tbd in (0, 1)", "ra + pa + ta == 0 or rbd + pbd + tbd == 0", "(not t0 and not t1) or ta + tbd == 0",
                 "ta in (0, 1, 3)", "(r0 or not r1) or ra + pa + rbd + pbd == 0"]
    if tier == "thorough":
        spre += ["ra + pa + ta == 0 or rbd + pbd + tbd == 0 or (ra == pa and tbd == 0)", "tbd in (0, 1, 2)"]
    units.append(Sel(name="scrg3", func="vp.props.C08:scrg3", params=sp, pre=spre, shard_by=["has_ts"], timeout=1500))
    if tier == "thorough":
        b4 = dict(_bond_params(4))
        b4["has_ts"] = "bool"
        units.append(Sel(name="crg4", func="vp.props.C08:crg4", params=dict(b4), pre=_bond_pre(4), shard_by=[], timeout=1200))
        sp4 = dict(b4)
        sp4.update({"ra": (0, 4), "pa": (0, 4), "ta": (0, 4), "rbd": (0, 3), "pbd": (0, 3), "tbd": (0, 2)})
        units.append(Sel(name="scrg4", func="vp.props.C08:scrg4", params=sp4,
                         pre=_bond_pre(4) + ["has_ts or (ta == 0 and tbd == 0)", "rbd == 0 or r0", "pbd == 0 or p0", "tbd == 0 or r0 or p0 or t0",
                                             "ra + pa + ta == 0 or rbd + pbd + tbd == 0", "(not t0 and not t1 and not t2) or ta + tbd == 0",
                                             "r0 or r1 or r2 or p0 or p1 or p2"],
                         shard_by=["has_ts", "ra"], timeout=1500))
    units.append(Sel(name="sn2", func="vp.props.C08:sn2", params={"pr": (0, 2), "pp": (0, 2), "pt": (0, 2), "lig_r": (0, 24), "lig_p": (0, 24)},
                     pre=["lig_r % 5 == 0", "lig_p % 7 == 0"] if tier == "quick" else ["lig_r % 2 == 0"], shard_by=[], timeout=1200))
    return units


MANIFEST = {
    "text": "Bounded model checking: z3 enumerates reactant / product bond sets over a common atom set (3 atoms, thorough 4), an optional transition structure with "
            "every superset of bonds, and per structure a descriptor choice on an atom (absent / Tet+ / Tet- / SquarePlanar) and on a bond (absent / PlanarBond / "
            "AtropBond+-), so that descriptors appear, disappear, change parity or class between R, TS and P; from_graphs, reactant(), product(), the three role "
            "queries and reverse_reaction() (once and twice) are executed on the real classes and compared with set algebra on the inputs and the rotation-group oracle.",
    "note": "Trusted: CrossHair path exhaustion, z3, rotation-group oracle. Bound: one decorated atom and one decorated bond per structure (plus the 6-atom SN2 centre).",
    "technique": "CrossHair symbolic execution with z3 (solver-enumerated reactant/product/TS triples, real code per path), set-algebra and descriptor oracles",
}
