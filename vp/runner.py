"""Shard scheduler, CrossHair driver, verdict parser, replay, known findings, evidence writer.

See DESIGN.md §3.  A property module (vp/props/Cxx.py) exposes

    plan(tier: str, seed: int) -> list[Unit]

where a Unit is one of
    Sel(...)   engine A-sel harness (selectors concretised by solver-decided branching, body native)
    Sym(...)   engine A-sym harness (verbatim CrossHair source, values stay symbolic)
    Nat(...)   in-process obligation set (engine B: z3 on shadow-executed kernels; stub validation)
"""
from __future__ import annotations

import dataclasses
import hashlib
import importlib
import itertools
import json
import os
import re
import resource
import shutil
import subprocess
import sys
import time
from concurrent.futures import ThreadPoolExecutor
from typing import Any, Callable

ROOT = os.path.dirname(os.path.dirname(os.path.abspath(__file__)))
# the code under test: /repo/src.  VERIF_SRC is a development aid only (seeded-fault / refactoring studies evaluate a patch in a scratch worktree while a long
# check run is reading /repo); registered commands never set it.
SRC_ROOT = os.environ.get("VERIF_SRC", "/repo/src")
VENV_PY = os.path.join(ROOT, ".venv", "bin", "python")
CROSSHAIR = os.path.join(ROOT, ".venv", "bin", "crosshair")
WORK = os.path.join(ROOT, ".work")
REPLAYS = os.path.join(ROOT, "replays")
EVIDENCE = os.path.join(ROOT, "evidence")
KNOWN = os.path.join(ROOT, "known_findings.json")
NCPU = int(os.environ.get("VERIF_JOBS", "16"))
EXIT_HARNESS_ERROR = 3


# ------------------------------------------------------------------------------------------------
# unit descriptions
# ------------------------------------------------------------------------------------------------
@dataclasses.dataclass
class Sel:
    """A-sel harness: `func(**params) -> None | str` (module:function), params name -> (lo, hi)
    half-open int range, or "bool"."""
    name: str
    func: str
    params: dict
    pre: list = dataclasses.field(default_factory=list)       # python expressions over param names
    shard_by: list = dataclasses.field(default_factory=list)  # params fixed per shard
    timeout: int = 600                                        # CPU seconds per shard
    note: str = ""
    nontrivial: str | None = None   # python expr over params: which inputs count as non-trivial
    max_shards: int = 4096
    solutions_func: str | None = None   # optional 'module:function' -> iterable of dicts: efficient native enumeration of the precondition's solution set
    min_shard: int = 48             # do not split below this many inputs per shard


@dataclasses.dataclass
class Sym:
    """A-sym harness: verbatim CrossHair module source; every function with a contract is one
    condition.  `twins` names functions whose postcondition is deliberately false (reachability
    witnesses) and must be refuted."""
    name: str
    source: str
    timeout: int = 600
    twins: list = dataclasses.field(default_factory=list)
    note: str = ""
    replay: str | None = None   # "module:function" taking the counterexample argument string
    min_conditions: int = 1     # a module reporting fewer non-twin verdicts is a harness error


@dataclasses.dataclass
class Nat:
    """In-process obligations: `func(tier, seed) -> dict` with keys obligations(list of dicts with
    name, status in {unsat-proved, sat-violation, unknown, ok, error}, seconds, detail)."""
    name: str
    func: str
    timeout: int = 900
    note: str = ""


# ------------------------------------------------------------------------------------------------
def _load(path: str):
    mod, fn = path.split(":")
    return getattr(importlib.import_module(mod), fn)


def _domain(spec):
    if spec == "bool":
        return [False, True]
    if isinstance(spec, list):
        return list(spec)
    lo, hi = spec
    return list(range(lo, hi))


_RE_IN = re.compile(r"^\s*(\w+) in \(([-\d, ]+)\)\s*$")
_RE_CMP = re.compile(r"^\s*(\w+) (==|<|<=|>|>=) (-?\d+)\s*$")


def narrow(u):
    """Turn preconditions of the form `x in (a, b, ..)`, `x == c`, `x < c` into explicit value lists of the parameter, so that the native
    enumeration of the solution set does not walk the full product of the declared ranges.  The precondition itself is kept (it is what CrossHair sees)."""
    if getattr(u, "_narrowed", False):
        return u
    params = dict(u.params)
    for p in u.pre:
        m = _RE_IN.match(p)
        if m and m.group(1) in params and params[m.group(1)] != "bool":
            vals = {int(x) for x in m.group(2).replace(" ", "").split(",") if x}
            params[m.group(1)] = [v for v in _domain(params[m.group(1)]) if v in vals]
            continue
        m = _RE_CMP.match(p)
        if m and m.group(1) in params and params[m.group(1)] != "bool":
            c = int(m.group(3))
            op = {"==": lambda v: v == c, "<": lambda v: v < c, "<=": lambda v: v <= c, ">": lambda v: v > c, ">=": lambda v: v >= c}[m.group(2)]
            params[m.group(1)] = [v for v in _domain(params[m.group(1)]) if op(v)]
    u.params = params
    u._narrowed = True
    return u


_PRE_CACHE = {}
_SAFE = {"bool": bool, "abs": abs, "min": min, "max": max, "sum": sum, "len": len, "all": all, "any": any, "range": range, "int": int}


def _compile_pre(pre, names):
    key = (tuple(pre), tuple(names))
    f = _PRE_CACHE.get(key)
    if f is None:
        body = " and ".join(f"({p})" for p in pre) or "True"
        f = eval(f"lambda {', '.join(names)}: bool({body})", {"__builtins__": _SAFE})
        _PRE_CACHE[key] = f
    return f


def _eval_pre(pre, env):
    names = sorted(env)
    return _compile_pre(pre, names)(*[env[n] for n in names])


def known_findings():
    if not os.path.exists(KNOWN):
        return []
    return [f for f in json.load(open(KNOWN)).get("findings", []) if f.get("status", "open") == "open"]


# ------------------------------------------------------------------------------------------------
# Sel: generation
# ------------------------------------------------------------------------------------------------
def _solutions(u: Sel, extra_pre):
    narrow(u)
    names = list(u.params)
    if u.solutions_func:
        f = _compile_pre(list(u.pre) + list(extra_pre), sorted(names))
        sols = []
        for kw in _load(u.solutions_func)(u):
            assert f(*[kw[n] for n in sorted(names)]), f"solutions_func produced a non-solution {kw}"
            sols.append(tuple(kw[n] for n in names))
        return names, sols
    doms = [_domain(u.params[p]) for p in names]
    f = _compile_pre(list(u.pre) + list(extra_pre), sorted(names))
    idx = [names.index(n) for n in sorted(names)]
    sols = []
    for combo in itertools.product(*doms):
        if f(*[combo[i] for i in idx]):
            sols.append(combo)
    return names, sols


def _sel_shards(u: Sel, extra_pre=()):
    """Shards = assignments to `shard_by`; parameters are added automatically (greedy, smallest
    resulting maximum) until no shard holds more than ~1/48 of the precondition's solution set."""
    names, sols = _solutions(u, extra_pre)
    by = list(u.shard_by)
    target = max(u.min_shard, -(-len(sols) // 20))

    def groups(keys):
        ix = [names.index(k) for k in keys]
        g = {}
        for s in sols:
            g.setdefault(tuple(s[i] for i in ix), []).append(s)
        return g

    g = groups(by)
    while g and max(len(v) for v in g.values()) > target and len(by) < len(names):
        best = None
        for p in names:
            if p in by:
                continue
            gg = groups(by + [p])
            m = max(len(v) for v in gg.values())
            if best is None or m < best[0]:
                best = (m, p, gg)
        if best[0] >= max(len(v) for v in g.values()):
            break
        by.append(best[1])
        g = best[2]
    out = [(dict(zip(by, k)), len(g[k])) for k in sorted(g, key=lambda k: -len(g[k]))]
    if len(out) > u.max_shards:
        raise RuntimeError(f"{u.name}: {len(out)} shards > max")
    return out


_SOL_CACHE = {}


def _sel_expected(u: Sel, fixed, extra_pre):
    """Size of the precondition's solution set inside the shard, computed natively and independently of the solver."""
    key = (id(u), tuple(extra_pre))
    if key not in _SOL_CACHE:
        _SOL_CACHE[key] = _solutions(u, extra_pre)
    names, sols = _SOL_CACHE[key]
    ix = [(names.index(k), v) for k, v in fixed.items()]
    nt_f = _compile_pre([u.nontrivial], sorted(names)) if u.nontrivial else None
    order = [names.index(n) for n in sorted(names)]
    n = nt = 0
    for s in sols:
        if all(s[i] == v for i, v in ix):
            n += 1
            if nt_f is None or nt_f(*[s[i] for i in order]):
                nt += 1
    return n, nt


def _sel_source(u: Sel, fixed, extra_pre, logfile, twin=False):
    narrow(u)
    mod, fn = u.func.split(":")
    names = list(u.params)
    sig = ", ".join(f"{p}: {'bool' if u.params[p] == 'bool' else 'int'}" for p in names)
    pres = []
    for p in names:
        if p in fixed:
            pres.append(f"{p} == {fixed[p]!r}")
        elif isinstance(u.params[p], list):
            pres.append(f"{p} in {tuple(u.params[p])!r}" if len(u.params[p]) != 1 else f"{p} == {u.params[p][0]!r}")
        elif u.params[p] != "bool":
            lo, hi = u.params[p]
            pres.append(f"{lo} <= {p} < {hi}")
    pres += list(u.pre) + list(extra_pre)
    conc = []
    for p in names:
        if p in fixed:
            conc.append(f"{p}={fixed[p]!r}")
        elif u.params[p] == "bool":
            conc.append(f"{p}=cbool({p})")
        elif isinstance(u.params[p], list):
            conc.append(f"{p}=cval({p}, {tuple(u.params[p])!r})")
        else:
            lo, hi = u.params[p]
            conc.append(f"{p}=cint({p}, {lo}, {hi})")
    doc = "\n".join(f"    pre: {p}" for p in pres)
    post = "False" if twin else "_"
    return f'''import sys
sys.path[:0] = [{ROOT!r}]
from vp.lib.sel import cint, cbool, cval, run_native
from {mod} import {fn} as _BODY


def h({sig}) -> bool:
    """
{doc}
    post: {post}
    """
    return run_native(_BODY, {logfile!r}, {", ".join(conc)})
'''


# ------------------------------------------------------------------------------------------------
# running CrossHair
# ------------------------------------------------------------------------------------------------
_RE_LINE = re.compile(r"^(?P<file>[^:]+):(?P<line>\d+): (?P<kind>info|error|warning): (?P<msg>.*)$")


def _crosshair(path, timeout, extra=()):
    """Returns (list of (line, kind, msg), cpu_seconds, wall, raw)."""
    t0 = time.time()
    cmd = ["timeout", "-k", "5", str(int(timeout * 2 + 60)), CROSSHAIR, "check", "--report_all",
           "--per_condition_timeout", str(timeout), "--unblock=open", "--analysis_kind", "PEP316",
           *extra, path]
    env = dict(os.environ)
    env.setdefault("PYTHONHASHSEED", "0")
    env["PYTHONPATH"] = ROOT + os.pathsep + SRC_ROOT
    env["PYTHONDONTWRITEBYTECODE"] = "1"
    outp = path + ".out"
    with open(outp, "w") as fo:
        pr = subprocess.Popen(cmd, stdout=fo, stderr=subprocess.STDOUT, env=env, cwd=os.path.dirname(path))
        _, status, ru = os.wait4(pr.pid, 0)
        pr.returncode = os.waitstatus_to_exitcode(status)
    cpu = ru.ru_utime + ru.ru_stime
    text = open(outp, errors="replace").read()

    class p:  # noqa: N801 - tiny result holder
        stdout = text
        stderr = ""
        returncode = pr.returncode
    out = []
    for ln in (p.stdout + "\n" + p.stderr).splitlines():
        m = _RE_LINE.match(ln.strip())
        if m:
            out.append((int(m["line"]), m["kind"], m["msg"]))
    return out, cpu, time.time() - t0, (p.stdout + p.stderr)[-4000:], p.returncode


def _classify(msg: str):
    if msg.startswith("Confirmed over all paths"):
        return "confirmed"
    if msg.startswith("Not confirmed") or "Unable to meet precondition" in msg or msg.startswith("Unknown"):
        return "inconclusive"
    return "counterexample"


def _read_log(logfile):
    rows = []
    if os.path.exists(logfile):
        with open(logfile) as fh:
            for ln in fh:
                try:
                    rows.append(json.loads(ln))
                except Exception:
                    pass
    return rows


def run_sel_shard(u: Sel, fixed, extra_pre, workdir, idx, with_twin):
    tag = f"{u.name}-{idx:04d}"
    logfile = os.path.join(workdir, tag + ".log")
    path = os.path.join(workdir, tag + ".py")
    with open(path, "w") as fh:
        fh.write(_sel_source(u, fixed, extra_pre, logfile))
    expected, expected_nt = _sel_expected(u, fixed, extra_pre)
    res = {"unit": u.name, "shard": tag, "fixed": fixed, "expected": expected, "expected_nontrivial": expected_nt,
           "engine": "A-sel"}
    if expected == 0:
        res.update(status="empty", executed=0, distinct=0, cpu_s=0.0, wall_s=0.0, decisions=0)
        return res
    lines, cpu, wall, raw, rc = _crosshair(path, u.timeout)
    rows = _read_log(logfile)
    distinct = {json.dumps(r["in"], sort_keys=True) for r in rows}
    res.update(executed=len(rows), distinct=len(distinct), cpu_s=round(cpu, 2), wall_s=round(wall, 2),
               decisions=sum(len(r["in"]) for r in rows))
    res["sample"] = rows[len(rows) // 2]["in"] if rows else None
    failing = [r for r in rows if not r["ok"]]
    kinds = [_classify(m) for (_, _, m) in lines]
    if failing:
        res.update(status="counterexample", cex=failing[0]["in"], cex_msg=failing[0]["msg"])
    elif "counterexample" in kinds:
        # crosshair reported something we did not log (exception in harness glue)
        res.update(status="harness_error", detail=[m for (_, _, m) in lines][:3])
    elif kinds and all(k == "confirmed" for k in kinds):
        if len(distinct) != expected:
            res.update(status="harness_error", detail=f"confirmed but executed {len(distinct)} distinct inputs, expected {expected}")
        else:
            res.update(status="confirmed")
    elif not kinds:
        res.update(status="harness_error", detail="no crosshair verdict: rc=%s %s" % (rc, raw[-600:]))
    else:
        res.update(status="inconclusive", detail=[m for (_, _, m) in lines][:3])
    if with_twin and res["status"] in ("confirmed", "inconclusive"):
        tpath = os.path.join(workdir, tag + "-twin.py")
        with open(tpath, "w") as fh:
            fh.write(_sel_source(u, fixed, extra_pre, "", twin=True))
        tl, tcpu, _, traw, _ = _crosshair(tpath, min(u.timeout, 60))
        refuted = any(_classify(m) == "counterexample" for (_, _, m) in tl)
        res["twin_refuted"] = refuted
        res["cpu_s"] = round(res["cpu_s"] + tcpu, 2)
        if not refuted:
            res.update(status="harness_error", detail="vacuity twin (post: False) was not refuted: %s" % traw[-300:])
    return res


# ------------------------------------------------------------------------------------------------
def run_sym(u: Sym, workdir):
    path = os.path.join(workdir, u.name + ".py")
    with open(path, "w") as fh:
        fh.write(u.source)
    # map line -> function name
    fn_at = {}
    cur = None
    for i, ln in enumerate(u.source.splitlines(), 1):
        m = re.match(r"\s*def (\w+)\(", ln)
        if m:
            cur = m.group(1)
            fn_at[i] = cur
    lines, cpu, wall, raw, rc = _crosshair(path, u.timeout)
    res = {"unit": u.name, "engine": "A-sym", "cpu_s": round(cpu, 2), "wall_s": round(wall, 2), "conditions": {}}
    def fn_of(line):
        best = None
        for l, f in fn_at.items():
            if l <= line and (best is None or l > best[0]):
                best = (l, f)
        return best[1] if best else "?"
    for line, kind, msg in lines:
        f = fn_of(line)
        res["conditions"][f] = {"verdict": _classify(msg), "msg": msg}
    status = "confirmed"
    declared = [f for f in fn_at.values() if f.startswith(("c_", "t_"))]
    for f in declared:
        c = res["conditions"].get(f)
        if c is None:
            status = "harness_error"
            res.setdefault("detail", []).append(f"no verdict for {f}: rc={rc} {raw[-400:]}")
            continue
        if f in u.twins:
            if c["verdict"] != "counterexample":
                status = "harness_error"
                res.setdefault("detail", []).append(f"twin {f} not refuted: {c['msg']}")
        elif c["verdict"] == "counterexample":
            if status != "harness_error":
                status = "counterexample"
            res["cex_fn"] = f
            res["cex_msg"] = c["msg"]
        elif c["verdict"] == "inconclusive" and status == "confirmed":
            status = "inconclusive"
            res.setdefault("detail", []).append(f"{f}: {c['msg']}")
    if len([f for f in declared if f not in u.twins]) < u.min_conditions:
        status = "harness_error"
        res.setdefault("detail", []).append("fewer conditions than declared")
    res["status"] = status
    res["n_conditions"] = len([f for f in declared if f not in u.twins])
    res["n_twins"] = len(u.twins)
    return res


def run_nat(u: Nat, tier, seed):
    """Run in a subprocess so that np-proxy rebinding etc. never leaks; result via JSON on stdout."""
    code = (f"import sys, json; sys.path[:0]=[{ROOT!r}];"
            f"from vp.runner import _load; r=_load({u.func!r})({tier!r},{seed});"
            "print('@@RESULT@@'+json.dumps(r, default=str))")
    env = dict(os.environ)
    env.setdefault("PYTHONHASHSEED", "0")
    env["PYTHONPATH"] = ROOT + os.pathsep + SRC_ROOT
    env["PYTHONDONTWRITEBYTECODE"] = "1"
    t0 = time.time()
    try:
        p = subprocess.run([VENV_PY, "-c", code], capture_output=True, text=True, env=env, timeout=u.timeout, cwd=ROOT)
    except subprocess.TimeoutExpired:
        return {"unit": u.name, "engine": "B", "status": "inconclusive", "detail": "timeout", "obligations": [], "wall_s": u.timeout}
    m = re.search(r"@@RESULT@@(.*)", p.stdout)
    if not m:
        return {"unit": u.name, "engine": "B", "status": "harness_error", "detail": (p.stdout + p.stderr)[-1500:], "obligations": [], "wall_s": time.time() - t0}
    r = json.loads(m.group(1))
    r["unit"] = u.name
    r.setdefault("engine", "B")
    r["wall_s"] = round(time.time() - t0, 2)
    obs = r.get("obligations", [])
    st = "confirmed"
    for o in obs:
        if o["status"] in ("error",):
            st = "harness_error"
            break
        if o["status"] == "violation":
            st = "counterexample"
        elif o["status"] in ("unknown", "not-encodable") and st == "confirmed":
            st = "inconclusive"
    r["status"] = r.get("status_override", st)
    return r


# ------------------------------------------------------------------------------------------------
# replay + known findings
# ------------------------------------------------------------------------------------------------
def write_replay(pid, func, kw, note=""):
    os.makedirs(REPLAYS, exist_ok=True)
    dig = hashlib.sha1(json.dumps([func, kw], sort_keys=True, default=str).encode()).hexdigest()[:10]
    path = os.path.join(REPLAYS, f"{pid}-{dig}.py")
    with open(path, "w") as fh:
        fh.write(f'''#!{VENV_PY}
"""Replay of a counterexample for property {pid} ({note}).
Runs the harness body natively (no CrossHair) on the concrete input against /repo/src.
exit 1 + 'REPRODUCED' when the property is violated, exit 0 otherwise."""
import sys
sys.path[:0] = [{ROOT!r}, {SRC_ROOT!r}]
from vp.runner import _load
kw = {kw!r}
msg = _load({func!r})(**kw)
if msg is None:
    print("not reproduced: property holds on", kw)
    sys.exit(0)
print("REPRODUCED property={pid} input=%r :: %s" % (kw, msg))
sys.exit(1)
''')
    os.chmod(path, 0o755)
    return path


def run_replay(path):
    env = dict(os.environ)
    env.setdefault("PYTHONHASHSEED", "0")
    env["PYTHONPATH"] = ROOT + os.pathsep + SRC_ROOT
    env["PYTHONDONTWRITEBYTECODE"] = "1"
    p = subprocess.run([VENV_PY, path], capture_output=True, text=True, env=env, timeout=600)
    return p.returncode == 1 and "REPRODUCED" in p.stdout, (p.stdout + p.stderr)[-1500:]


def _finding_pre(f):
    """`where` is a python expression over the harness parameters selecting the known-failing inputs."""
    return f"not ({f['where']})"


# ------------------------------------------------------------------------------------------------
def run_property(pid: str, tier: str, seed: int):
    t0 = time.time()
    mod = importlib.import_module(f"vp.props.{pid}")
    units = mod.plan(tier, seed)
    workdir = os.path.join(WORK, f"{pid}-{tier}-{os.getpid()}")
    shutil.rmtree(workdir, ignore_errors=True)
    os.makedirs(workdir)
    findings = [f for f in known_findings() if f["property"] == pid]
    jobs = []
    lines_out = []
    sel_units = {}
    for u in units:
        if isinstance(u, Sel):
            sel_units[u.name] = u
            extra = [_finding_pre(f) for f in findings if f.get("harness") == u.name]
            shards = _sel_shards(u, extra)
            for i, (fixed, size) in enumerate(shards):
                jobs.append(("sel", u, fixed, extra, i, i == 0, size))
        elif isinstance(u, Sym):
            jobs.append(("sym", u))
        elif isinstance(u, Nat):
            jobs.append(("nat", u))
    # longest first is unknown; keep generation order but interleave units for balance

    jobs.sort(key=lambda j: -(j[6] if j[0] == 'sel' else 10 ** 9))

    def do(job):
        try:
            if job[0] == "sel":
                _, u, fixed, extra, i, twin, _size = job
                return run_sel_shard(u, fixed, extra, workdir, i, twin)
            if job[0] == "sym":
                return run_sym(job[1], workdir)
            return run_nat(job[1], tier, seed)
        except Exception as e:  # harness machinery failure
            import traceback
            return {"unit": job[1].name, "status": "harness_error", "detail": traceback.format_exc()[-1500:]}

    with ThreadPoolExecutor(max_workers=NCPU) as ex:
        results = list(ex.map(do, jobs))

    violations = []
    known_hits = []
    harness_errors = []
    inconclusive = []
    replayed = 0
    for r in results:
        st = r.get("status")
        if st == "harness_error":
            harness_errors.append(r)
        elif st == "inconclusive":
            inconclusive.append(r)
        elif st == "counterexample":
            if r.get("engine") == "A-sel":
                u = sel_units[r["unit"]]
                path = write_replay(pid, u.func, r["cex"], note=r["unit"])
                ok, out = run_replay(path)
                replayed += 1
                if ok:
                    violations.append({"unit": r["unit"], "input": r["cex"], "msg": r.get("cex_msg"), "replay": path})
                else:
                    r["detail"] = "counterexample did not reproduce natively: " + out[-500:]
                    harness_errors.append(r)
            elif r.get("engine") == "A-sym":
                su = next(u for u in units if isinstance(u, Sym) and u.name == r["unit"])
                if su.replay:
                    kw = {"fn": r["cex_fn"], "msg": r["cex_msg"]}
                    path = write_replay(pid, su.replay, kw, note=r["unit"])
                    ok, out = run_replay(path)
                    replayed += 1
                    if ok:
                        violations.append({"unit": r["unit"], "input": kw, "msg": out.strip()[-400:], "replay": path})
                    else:
                        r["detail"] = "A-sym counterexample did not reproduce natively: " + out[-500:]
                        harness_errors.append(r)
                else:
                    harness_errors.append(r)
            else:
                for o in r.get("obligations", []):
                    if o["status"] == "violation":
                        if o.get("replay_func"):
                            path = write_replay(pid, o["replay_func"], o["replay_kw"], note=r["unit"] + "/" + o["name"])
                            ok, out = run_replay(path)
                            replayed += 1
                            if ok:
                                violations.append({"unit": r["unit"], "input": o["replay_kw"], "msg": o.get("detail"), "replay": path})
                            else:
                                o["detail"] = "model did not reproduce on the real float code: " + out[-400:]
                                harness_errors.append({"unit": r["unit"], "status": "harness_error", "detail": o})
                        else:
                            harness_errors.append({"unit": r["unit"], "status": "harness_error", "detail": o})

    # known-finding witnesses
    for f in findings:
        try:
            msg = None
            path = write_replay(pid, f["func"], f["witness"], note="known finding witness")
            ok, out = run_replay(path)
            if ok:
                known_hits.append(f)
                lines_out.append(f"KNOWN-FINDING: property={pid} {f['what']}")
        except Exception as e:
            harness_errors.append({"unit": "known-finding", "status": "harness_error", "detail": repr(e)})

    wall = time.time() - t0
    ev = build_evidence(pid, tier, seed, mod, units, results, violations, known_hits, harness_errors, inconclusive, replayed, wall)
    os.makedirs(EVIDENCE, exist_ok=True)
    with open(os.path.join(EVIDENCE, f"{pid}.json"), "w") as fh:
        json.dump(ev, fh, indent=1, default=str)
    if not os.environ.get("VERIF_KEEP_WORK"):
        shutil.rmtree(workdir, ignore_errors=True)

    for l in lines_out:
        print(l)
    for r in inconclusive:
        print(f"INCONCLUSIVE property={pid} shard={r.get('shard', r.get('unit'))} {str(r.get('detail'))[:200]}")
    n_conf = sum(1 for r in results if r.get("status") == "confirmed")
    print(f"[{pid}] tier={tier} units={len(units)} jobs={len(results)} confirmed={n_conf} inconclusive={len(inconclusive)} "
          f"violations={len(violations)} known={len(known_hits)} harness_errors={len(harness_errors)} wall={wall:.1f}s")
    if harness_errors:
        for r in harness_errors[:5]:
            print(f"HARNESS-ERROR property={pid} unit={r.get('unit')} shard={r.get('shard')} {str(r.get('detail'))[:600]}")
    if violations:
        for v in violations:
            print(f"VIOLATION property={pid} replay={v['replay']}")
            print(f"  unit={v['unit']} input={v['input']} :: {str(v['msg'])[:400]}")
        return 1
    if harness_errors:
        return EXIT_HARNESS_ERROR
    return 0


def _sha(path):
    try:
        return hashlib.sha1(open(path, "rb").read()).hexdigest()[:12]
    except Exception:
        return None


def build_evidence(pid, tier, seed, mod, units, results, violations, known_hits, harness_errors, inconclusive, replayed, wall):
    sel = [r for r in results if r.get("engine") == "A-sel"]
    sym = [r for r in results if r.get("engine") == "A-sym"]
    nat = [r for r in results if r.get("engine") not in ("A-sel", "A-sym")]
    executed = sum(r.get("executed", 0) for r in sel)
    distinct = sum(r.get("distinct", 0) for r in sel)
    expected = sum(r.get("expected", 0) for r in sel)
    nontriv = sum(r.get("expected_nontrivial", 0) for r in sel if r.get("status") == "confirmed")
    decisions = sum(r.get("decisions", 0) for r in sel)
    sym_conditions = sum(r.get("n_conditions", 0) for r in sym)
    obligations = [o for r in nat for o in r.get("obligations", [])]
    proved = [o for o in obligations if o["status"] in ("proved", "ok")]
    samples = []
    for r in sel[:: max(1, len(sel) // 6)][:6]:
        if r.get("sample") is not None:
            samples.append({"harness": r["unit"], "input": r["sample"]})
    for r in sym[:3]:
        for f, c in list(r.get("conditions", {}).items())[:2]:
            samples.append({"harness": r["unit"], "condition": f, "verdict": c["msg"][:160]})
    for o in obligations[:4]:
        samples.append({"obligation": o["name"], "status": o["status"], "seconds": o.get("seconds")})
    if not samples:
        samples.append({"note": "no unit produced a sample"})
    files = sorted(set(getattr(mod, "FILES", [])))
    cov = {
        "states": max(1, distinct + sym_conditions + len(obligations)),
        "transitions": max(1, decisions + sym_conditions + len(obligations)),
        "traces_validated_against_impl": executed,
        "samples": samples,
        "evaluations": executed + sym_conditions + len(obligations),
        "distinct_nontrivial": nontriv + sum(1 for r in sym if r.get("status") == "confirmed") + len(proved),
        "rule": getattr(mod, "RULE", "inputs are the solutions of the harness preconditions, enumerated by CrossHair/z3 path exploration; "
                        "distinct = distinct concrete selector assignments logged by the harness body; non-trivial per harness `nontrivial` predicate"),
        "exhaustive": bool(not inconclusive and not harness_errors and not violations),
        "functions_encoded": getattr(mod, "FUNCTIONS", []),
        "source_sha1": {f: _sha(os.path.join("/repo", f)) for f in files},
        "bounds": getattr(mod, "BOUNDS", {}).get(tier, ""),
        "outside_bounds": getattr(mod, "OUTSIDE", ""),
        "engines": sorted({r.get("engine", "?") for r in results}),
        "a_sel": {"shards": len(sel), "confirmed": sum(1 for r in sel if r["status"] == "confirmed"),
                  "empty": sum(1 for r in sel if r["status"] == "empty"),
                  "expected_inputs": expected, "executed": executed, "distinct_inputs": distinct,
                  "selector_decisions": decisions, "cpu_s": round(sum(r.get("cpu_s", 0) for r in sel), 1),
                  "per_unit": _per_unit(sel)},
        "a_sym": {"modules": len(sym), "conditions": sym_conditions,
                  "confirmed_over_all_paths": sum(1 for r in sym for c in r.get("conditions", {}).values() if c["verdict"] == "confirmed"),
                  "twins_refuted": sum(r.get("n_twins", 0) for r in sym if r.get("status") != "harness_error"),
                  "cpu_s": round(sum(r.get("cpu_s", 0) for r in sym), 1)},
        "b": {"obligations": len(obligations), "discharged": len(proved),
              "solver_s": round(sum(float(o.get("seconds") or 0) for o in obligations), 2),
              "list": [{k: o.get(k) for k in ("name", "status", "seconds", "solver")} for o in obligations][:80],
              "stubs": sorted({s for r in nat for s in r.get("stubs", [])})},
        "queries_discharged": sum(1 for r in sel if r["status"] == "confirmed") + sum(1 for r in sym for c in r.get("conditions", {}).values() if c["verdict"] == "confirmed") + len(proved),
        "solver_and_execution_cpu_s": round(sum(r.get("cpu_s", 0) for r in sel + sym) + sum(float(o.get("seconds") or 0) for o in obligations), 1),
        "inconclusive_shards": [r.get("shard", r.get("unit")) for r in inconclusive],
        "harness_errors": [str(r.get("detail"))[:300] for r in harness_errors][:10],
        "counterexamples_replayed": replayed,
        "known_findings_reproduced": [f["what"] for f in known_hits],
        "violations": [{"unit": v["unit"], "input": v["input"], "replay": v["replay"]} for v in violations],
    }
    return {
        "property_id": pid, "tier": tier, "seed": seed, "level": "model_checking",
        "coverage": cov,
        "assumptions": list(getattr(mod, "ASSUMPTIONS", [])) + [
            "CrossHair 0.0.110 + z3 4.x/5.x decide path feasibility soundly ('Confirmed over all paths' = every feasible path executed)",
            "A-sel bodies execute the real /repo/src code natively on solver-chosen concrete selectors; the count of distinct executed inputs is checked against an independently computed size of the precondition's solution set",
        ],
        "wall_s": round(wall, 2),
        "violations": len(violations),
    }


def _per_unit(sel):
    out = {}
    for r in sel:
        d = out.setdefault(r["unit"], {"shards": 0, "expected": 0, "executed": 0, "cpu_s": 0.0, "status": {}})
        d["shards"] += 1
        d["expected"] += r.get("expected", 0)
        d["executed"] += r.get("executed", 0)
        d["cpu_s"] = round(d["cpu_s"] + r.get("cpu_s", 0), 1)
        d["status"][r["status"]] = d["status"].get(r["status"], 0) + 1
    return out


def main(argv):
    import argparse
    ap = argparse.ArgumentParser()
    ap.add_argument("pid")
    ap.add_argument("--tier", default=os.environ.get("VERIF_TIER", "quick"))
    ap.add_argument("--replay")
    a = ap.parse_args(argv)
    if a.replay:
        ok, out = run_replay(a.replay)
        print(out)
        if ok:
            print(f"VIOLATION property={a.pid} replay={a.replay}")
            return 1
        return 0
    seed = int(os.environ.get("VERIF_SEED", "0") or 0)
    return run_property(a.pid, a.tier, seed)


if __name__ == "__main__":
    sys.exit(main(sys.argv[1:]))
